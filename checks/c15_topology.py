"""C15  Topology reader yields exactly the file's atoms and bond graph."""
import numpy as np
from hypothesis import strategies as st

from vlib import env, gen, indep  # noqa: F401
from vlib.build import lib
from vlib.report import PropertyViolation
from vlib.runner import Sub

from gaddlemaps.components import MoleculeTop, are_connected
from gaddlemaps.parsers import read_topology

PROPERTY = "C15"
LEVEL = "exploration"
RULE = ("generated .itp texts: 1..60 atoms (quick) / ..400 (thorough) plus chains and stars of 1500 and 3000 atoms; "
        "trees, chains, stars, forests, cyclic graphs, disconnected graphs with rings (bond count n-1 or more), duplicated bonds; strictly increasing atom numbers with random "
        "start and gaps; bonds spread over [bonds]/[constraints]/[pairs], possibly with one of them occurring twice; "
        "bond lines with 2..6 fields; comment, blank, #include/#ifdef/#endif lines, trailing comments (also comments that "
        "contain bracketed words such as '; b0 [nm]' or ';[ bonds ]'), tabs and "
        "multiple blanks, LF or CRLF line ends; other sections (angles, dihedrals, exclusions) between them; 1..4 residues; (rewrite) one path "
        "holding two different topologies of exactly the same byte size one after the other (and back), with equal or "
        "free modification times. Non-trivial = "
        "(numbering with a gap and bonds in >=2 sections) or longest path > 1000. Distinct = sha1 of the case JSON.")
ASSUMPTIONS = [
    "atom numbers are unique and increasing; every bond refers to listed atoms; no self-bonds (GROMACS requirements)",
    "preprocessor and comment lines start in column 0 or after blanks followed by ';' (how GROMACS files are written)",
]

BIG = [1500, 3000]


def render(name, atoms, numbers, edges, sections, rng, style):
    """Topology text.  sections: list of (section name, [edge indices]) in file order."""
    def blanks():
        return str(rng.choice([" ", "  ", "\t", "   ", " \t "])) if style["spacing"] else " "

    branch = [0]          # 0: outside, 1: inside "#ifdef", 2: inside "#else"

    def noise(out):
        if not style["noise"]:
            return
        if branch[0]:
            # an "#ifdef ... #else ... #endif" block spanning the lines of a section: the library does not evaluate
            # conditions - the lines of BOTH branches are entries of the section
            out.append("#else" if branch[0] == 1 else "#endif")
            branch[0] = (branch[0] + 1) % 3
            return
        k = int(rng.integers(0, 9))
        if k == 8:
            out.append("#ifdef FLEXIBLE")
            branch[0] = 1
            return
        if k == 0:
            out.append("; a comment line")
        elif k == 1:
            out.append("")
        elif k == 2:
            out.append("#ifdef FLEXIBLE")
            out.append("#endif")
        elif k == 3:
            out.append("   ; indented comment")
        elif k == 4:
            out.append('#include "other.itp"')
        elif k == 5:
            out.append(str(rng.choice(["; b0 [nm]  kb [kJ]", ";[ exclusions ]", "; see ref. [12]", " ; [ bonds ] kept for reference",
                                       ";[pairs]", "; old entry\x0c%d %d 1" % (numbers[0], numbers[-1]),
                                       "; removed\u2028%d %d 1 0.1 1000" % (numbers[-1], numbers[0]), "; vt\x0b9 CT 1 XXX Q9 9 0.0",
                                       "; nel\x85%d %d 1" % (numbers[0], numbers[-1]),
                                       ";    C1--C2   \\", "; kept from C:\\top\\", ";\\", "; 100% \"quoted\" 'text' #hash"])))

    out = []
    if style["header"]:
        out += ["; topology written by the harness", '#include "forcefield.itp"', "#define FOO 1", ""]
    out.append("[ moleculetype ]" if not style["tight"] else "[moleculetype]")
    out.append("; name  nrexcl")
    noise(out)
    out.append(name + blanks() + "3" + (" ; the name" if style["noise"] else ""))
    out.append("")
    out.append("[ atoms ]" if not style["tight"] else "[atoms]")
    out.append(";   nr  type  resnr  residu  atom  cgnr  charge  mass")
    for k, (an, rn, ri) in enumerate(atoms):
        noise(out)
        fields = [str(numbers[k]), "CT", str(ri), rn, an, str(numbers[k]), "%.4f" % rng.uniform(-1, 1)]
        if style["mass"]:
            fields.append("%.3f" % rng.uniform(1, 40))
        line = blanks().join(fields)
        if style["lead"]:
            line = "   " + line
        if style["noise"] and rng.random() < 0.2:
            line += str(rng.choice([" ; qtot 0.%d" % k, " ; charge in [e]", " ;[ atoms ]"]))
        out.append(line)
    if branch[0]:
        out.append("#endif")
        branch[0] = 0
    out.append("")
    others = [("angles", 3), ("dihedrals", 4), ("exclusions", 2), ("dihedrals", 4)]
    oi = 0
    for sec, idxs in sections:
        if style["others"] and oi < len(others) and len(atoms) >= others[oi][1] and rng.random() < 0.5:
            osec, ar = others[oi]
            oi += 1
            out.append("[ %s ]" % osec)
            for _ in range(int(rng.integers(1, 4))):
                pick = rng.choice(len(atoms), size=ar, replace=False)
                out.append(" ".join(str(numbers[p]) for p in pick) + " 1")
            out.append("")
        out.append("[ %s ]" % sec if not style["tight"] else "[%s]" % sec)
        out.append("; ai aj funct")
        for e in idxs:
            noise(out)
            i, j = edges[e]
            if rng.random() < 0.5:
                i, j = j, i
            nf = int(rng.integers(2, 7)) if style["fields"] else 3
            extra = ["1", "0.153", "1000.0", "2.5"][:nf - 2]
            line = blanks().join([str(numbers[i]), str(numbers[j])] + extra)
            if style["lead"]:
                line = "  " + line
            if style["noise"] and rng.random() < 0.2:
                line += str(rng.choice([" ; bond", " ; b0 in [nm]", " ; [ bonds ]", " ; drawn as C-C\\", " ;\\"]))
            out.append(line)
        if branch[0]:
            out.append("#endif")
            branch[0] = 0
        out.append("")
    text = "\n".join(out)
    if style["final_newline"]:
        text += "\n"
    return text


@st.composite
def case_strategy(draw, tier, with_variant=False):
    big = draw(st.integers(0, 24)) == 0 and not with_variant
    if big:
        n = draw(st.sampled_from(BIG))
        kind = draw(st.sampled_from(["chain", "chain-sorted", "star"]))
    else:
        n = draw(st.integers(1, 400 if tier == "thorough" else 60))
        kind = draw(st.sampled_from(["tree", "tree", "chain", "star", "forest", "cyclic", "empty", "ring-forest", "ring-forest"]))
    rng = np.random.default_rng(draw(gen.SEEDS))
    if kind == "chain-sorted":
        edges = [[k, k + 1] for k in range(n - 1)]
    elif kind == "empty" or n == 1:
        edges = []
    elif big:
        if kind == "chain":
            perm = rng.permutation(n)
            edges = [[int(min(perm[k], perm[k + 1])), int(max(perm[k], perm[k + 1]))] for k in range(n - 1)]
        else:
            c = int(rng.integers(0, n))
            edges = [[min(c, k), max(c, k)] for k in range(n) if k != c]
    else:
        edges = draw(gen.graph_edges(n, kind))
    dup = draw(st.booleans()) and len(edges) > 0 and not big
    if dup:
        for _ in range(int(rng.integers(1, 3))):
            edges = edges + [list(edges[int(rng.integers(0, len(edges)))])]
    # numbering
    numbering = draw(st.sampled_from(["plain", "offset", "gaps", "gaps", "ends-at-n", "permuted", "zero-based"]))
    if numbering == "plain":
        numbers = list(range(1, n + 1))
    elif numbering == "ends-at-n":
        # starts at 0 (or below) and skips numbers so that the last number is the atom count - without being 1..n
        skip = int(rng.integers(0, n))
        numbers = [k if k < skip else k + 1 for k in range(n)]
        if n > 2 and rng.random() < 0.3:
            numbers = [-1] + [k if k < skip + 1 else k + 1 for k in range(n - 1)]
            numbers[-1] = n
            numbers = sorted(set(numbers))
            while len(numbers) < n:
                numbers.insert(0, numbers[0] - 1)
    elif numbering == "permuted":
        numbers = [int(v) + 1 for v in rng.permutation(n)]          # 1..n, not in file order
    elif numbering == "zero-based":
        numbers = list(range(0, n))
    elif numbering == "offset":
        start = int(rng.integers(2, 500))
        numbers = list(range(start, start + n))
    else:
        numbers = (int(rng.integers(1, 50)) + np.cumsum(rng.integers(1, 5, n))).tolist()
    # residues
    nres = draw(st.integers(1, min(4, n)))
    sizes = draw(gen.residue_partition(n, nres)) if nres > 1 else [n]
    atoms = []
    rid0 = draw(st.one_of(st.integers(1, 500), st.sampled_from([0, 99998, 99999, 100000, 199999, 1234567, 2 ** 31 - 5])))
    k = 0
    for r, sz in enumerate(sizes):
        rn = draw(st.sampled_from(gen.RESNAMES))
        for _ in range(sz):
            el = gen.ELEMENTS[int(rng.integers(0, len(gen.ELEMENTS)))] if rng.random() > 0.2 else "H"
            atoms.append(["%s%d" % (el, k + 1), rn, rid0 + r])
            k += 1
    # sections
    layout = draw(st.sampled_from(["bonds", "three", "three", "two", "repeat-bonds", "repeat-other"]))
    if not edges:
        sections = [] if draw(st.booleans()) else [["bonds", []]]
    else:
        idx = list(range(len(edges)))
        rng.shuffle(idx)
        if layout == "bonds":
            sections = [["bonds", idx]]
        elif layout == "two":
            cut = int(rng.integers(0, len(idx) + 1))
            a, b = draw(st.sampled_from([("bonds", "constraints"), ("bonds", "pairs"), ("constraints", "pairs"),
                                         ("pairs", "bonds")]))
            sections = [[a, idx[:cut]], [b, idx[cut:]]]
        elif layout == "three":
            c1, c2 = sorted(int(v) for v in rng.integers(0, len(idx) + 1, 2))
            order = draw(st.permutations(["bonds", "constraints", "pairs"]))
            sections = [[order[0], idx[:c1]], [order[1], idx[c1:c2]], [order[2], idx[c2:]]]
        else:
            c1, c2 = sorted(int(v) for v in rng.integers(0, len(idx) + 1, 2))
            rep = "bonds" if layout == "repeat-bonds" else draw(st.sampled_from(["constraints", "pairs"]))
            mid = draw(st.sampled_from([s for s in ("bonds", "constraints", "pairs") if s != rep]))
            sections = [[rep, idx[:c1]], [mid, idx[c1:c2]], [rep, idx[c2:]]]
    style = {"spacing": draw(st.booleans()), "noise": draw(st.booleans()) and not big, "header": draw(st.booleans()),
             "tight": draw(st.booleans()), "mass": draw(st.booleans()), "lead": draw(st.booleans()),
             "others": draw(st.booleans()), "fields": draw(st.booleans()), "final_newline": draw(st.booleans())}
    name = draw(st.sampled_from(["MOL", "BMIM", "Protein_A", "x1", "DNA-chain"]))
    render_seed = draw(gen.SEEDS)
    text = render(name, atoms, numbers, edges, sections, np.random.default_rng(render_seed), style)
    used_sections = sorted(set(s for s, ix in sections if ix))
    case = {"name": name, "n": n, "graph": kind, "atoms": atoms, "edges": edges, "numbering": numbering,
            "layout": layout, "sections": [[s, len(ix)] for s, ix in sections], "used_sections": used_sections,
            "style": style, "text": text, "crlf": draw(st.integers(0, 5)) == 0}
    if not with_variant:
        return case
    # a second topology whose text has exactly the same length: names swapped for names of equal length, bond
    # endpoints moved to atoms whose file number has as many digits, same layout decisions (same render seed)
    swap = {"C": "N", "N": "O", "O": "S", "S": "P", "P": "C", "H": "F", "F": "H"}
    rev = draw(st.booleans())
    atoms2 = [[swap.get(a[0][0], a[0][0]) + a[0][1:], a[1][::-1] if rev else a[1], a[2]] for a in atoms]
    by_digits = {}
    for k, num in enumerate(numbers):
        by_digits.setdefault(len(str(num)), []).append(k)
    perm = list(range(n))
    for ks in by_digits.values():
        sh = [ks[i] for i in rng.permutation(len(ks))]
        for a_, b_ in zip(ks, sh):
            perm[a_] = b_
    edges2 = [[perm[i], perm[j]] for i, j in edges]
    name2 = {"MOL": "LIG", "BMIM": "EMIM", "Protein_A": "Protein_B", "x1": "y2", "DNA-chain": "RNA-chain"}[name]
    text2 = render(name2, atoms2, numbers, edges2, sections, np.random.default_rng(render_seed), style)
    second = dict(case, name=name2, atoms=atoms2, edges=edges2, text=text2)
    return {"versions": [case, second], "same_mtime": draw(st.booleans()), "third": draw(st.booleans())}


def longest_path_lower_bound(n, edges):
    """Eccentricity of atom 0 in its component (cheap lower bound of the longest path)."""
    nb = indep.neighbours(n, [tuple(e) for e in edges])
    depth = {0: 0}
    frontier = [0]
    far = 0
    while frontier:
        nxt = []
        for u in frontier:
            for v in nb[u]:
                if v not in depth:
                    depth[v] = depth[u] + 1
                    far = max(far, depth[v])
                    nxt.append(v)
        frontier = nxt
    return far


def check(case):
    path = env.fresh_path(".v2.final.itp" if case["n"] % 2 else ".itp")          # further dots in the name are legal
    with open(path, "w", newline="\r\n" if case.get("crlf") else None) as f:
        f.write(case["text"])
    return check_at(path, case)


def check_rewrite(case):
    """One path holding different topologies one after the other (equal byte size, optionally equal mtime)."""
    import os
    path = env.fresh_path(".itp")
    a, b = case["versions"]
    order = [a, b] + ([a] if case["third"] else [])
    info = None
    for k, v in enumerate(order):
        with open(path, "w", newline="\r\n" if v.get("crlf") else None) as f:
            f.write(v["text"])
        if case["same_mtime"]:
            os.utime(path, (1700000000, 1700000000))
        try:
            info = check_at(path, v)
        except PropertyViolation as exc:
            if k == 0:
                raise
            raise PropertyViolation("rewritten-" + exc.clause, "after the path was rewritten (%d-th content, sizes %d/%d "
                                    "bytes, same mtime: %s): %s" % (k + 1, len(a["text"]), len(b["text"]), case["same_mtime"],
                                                                    exc.message), cls="rewritten")
    same = len(a["text"]) == len(b["text"])
    differs = a["edges"] != b["edges"] or a["atoms"] != b["atoms"]
    info["nontrivial"] = same and differs
    info["classes"] = ["same-size" if same else "other-size", "same-mtime" if case["same_mtime"] else "mtime-free",
                       "graph-differs" if a["edges"] != b["edges"] else "graph-same"]
    info["sample"] = {"first": a["text"][:300], "second": b["text"][:300]}
    return info


def check_at(path, case):
    if case["n"] % 2 == 0:
        # an ItpFile of the same text is opened and edited in memory through its public setters (never written back):
        # loading the topology from the file afterwards is not affected
        from gaddlemaps.parsers import ItpFile
        try:
            with env.quiet():
                scratch = ItpFile(path)
                for line in scratch["moleculetype"]:
                    line.name = "EDITED"
                for sec in ("bonds", "constraints", "pairs"):
                    if sec in scratch:
                        for line in list(scratch[sec])[:3]:
                            line.content = ""
                for line in list(scratch["atoms"])[:2]:
                    line.comment = "edited in memory"
        except Exception:      # noqa: BLE001   (the setters themselves are not the subject here)
            pass
    n = case["n"]
    edges = [tuple(e) for e in case["edges"]]
    exp_atoms = [tuple(a) for a in case["atoms"]]
    exp_nb = indep.neighbours(n, edges)

    name, atoms_info, bonds = lib("read", read_topology, path)
    if name != case["name"]:
        raise PropertyViolation("name", "molecule name %r read as %r" % (case["name"], name))
    got_atoms = [tuple(a) for a in atoms_info]
    if got_atoms != exp_atoms:
        bad = next((k for k, (a, b) in enumerate(zip(got_atoms, exp_atoms)) if a != b), min(len(got_atoms), len(exp_atoms)))
        raise PropertyViolation("atoms", "%d atoms read, %d in the file; first difference at %d: %r vs %r"
                                % (len(got_atoms), len(exp_atoms), bad, got_atoms[bad:bad + 1], exp_atoms[bad:bad + 1]))
    got_pairs = set()
    for b in bonds:
        i, j = int(b[0]), int(b[1])
        if not (0 <= i < n and 0 <= j < n):
            raise PropertyViolation("bond-range", "bond %r outside 0..%d" % (b, n - 1))
        got_pairs.add((min(i, j), max(i, j)))
    exp_pairs = set((min(i, j), max(i, j)) for i, j in edges)
    if got_pairs != exp_pairs:
        miss = sorted(exp_pairs - got_pairs)[:5]
        extra = sorted(got_pairs - exp_pairs)[:5]
        raise PropertyViolation("bond-graph", "read_topology: %d bonds missing %r, %d unexpected %r (sections %r, "
                                "numbering %s)" % (len(exp_pairs - got_pairs), miss, len(got_pairs - exp_pairs), extra,
                                                   case["sections"], case["numbering"]),
                                cls="bond-graph:" + ("repeat" if case["layout"].startswith("repeat") else case["numbering"]))
    if case["n"] % 3 == 0:
        import os
        with open(path) as fobj, open(path) as fobj2:                      # an opened file is accepted as well
            stale = case["n"] % 2 == 1
            if stale:
                # ... and is what gets read, also when the name it was opened under belongs to another file by now
                os.rename(path, path + ".real")
                with open(path, "w") as f:
                    f.write("[ moleculetype ]\nDECOY 1\n\n[ atoms ]\n1 C 1 DEC X1 1 0.0 12.0\n2 C 1 DEC X2 2 0.0 12.0\n")
            try:
                top = lib("load", MoleculeTop, fobj)
                if stale and lib("read", read_topology, fobj2)[0] != case["name"]:
                    raise PropertyViolation("name", "read_topology(opened file) did not read the opened file")
            finally:
                if stale:
                    os.replace(path + ".real", path)
    else:
        top = lib("load", MoleculeTop, path)
    # residue view of the same atoms: consecutive atoms with equal (name, number) form one residue
    groups = []
    for an, rn, ri in exp_atoms:
        if groups and groups[-1][0] == rn and groups[-1][1] == ri:
            groups[-1][2] += 1
        else:
            groups.append([rn, ri, 1])
    if list(top.resnames) != [g[0] for g in groups] or list(top.resids) != [g[1] for g in groups] or \
            [tuple(x) for x in top.resname_len_list] != [(g[0], g[2]) for g in groups]:
        raise PropertyViolation("residue-view", "resnames/resids/resname_len_list %r / %r / %r, the file has %r"
                                % (top.resnames, top.resids, top.resname_len_list, groups))
    if top.name != case["name"] or len(top) != n:
        raise PropertyViolation("moleculetop", "MoleculeTop name/len %r/%d" % (top.name, len(top)))
    for k, at in enumerate(top):
        if (at.name, at.resname, at.resid) != exp_atoms[k] or at.index != k:
            raise PropertyViolation("moleculetop-atoms", "atom %d is %r" % (k, (at.name, at.resname, at.resid, at.index)))
        if set(at.bonds) != exp_nb[k]:
            raise PropertyViolation("moleculetop-bonds", "atom %d bonded to %r, file says %r"
                                    % (k, sorted(at.bonds), sorted(exp_nb[k])),
                                    cls="moleculetop-bonds:" + ("repeat" if case["layout"].startswith("repeat") else "x"))
    exp_conn = indep.connected(n, edges)
    got_conn = lib("connectivity", are_connected, top.atoms)
    if bool(got_conn) != exp_conn:
        raise PropertyViolation("connectivity", "are_connected=%r, graph connected=%r (%d atoms, %s)"
                                % (got_conn, exp_conn, n, case["graph"]))
    # the generic copying protocols give the same topology as the method does
    import copy as _copy
    import pickle as _pickle
    for how, fn in (("copy.deepcopy", _copy.deepcopy), ("copy.copy", _copy.copy),
                    ("pickle", lambda t: _pickle.loads(_pickle.dumps(t)))):
        if n > 600 and how != "copy.copy":
            continue                     # (deep recursion of the generic protocols on long chains is not the subject)
        other = lib(how, fn, top)
        if [set(a.bonds) for a in other] != [exp_nb[k] for k in range(n)] or [a.name for a in other] != [a[0] for a in exp_atoms]:
            raise PropertyViolation("copy-equal", "%s(MoleculeTop) does not carry the bond graph / atoms of the original" % how,
                                    cls="copy-equal:" + how)
    # copy: equal but independent
    cp = lib("copy", top.copy)
    if not (cp == top) or cp is top:
        raise PropertyViolation("copy-equal", "copy() is not equal to the original")
    if n:
        cp[0].name = cp[0].name + "q"
        cp[n - 1].bonds.add(0 if n > 1 else 0)
        cp[0].bonds.discard(next(iter(cp[0].bonds), None))
        cp.name = cp.name + "_copy"
        fresh = lib("load", MoleculeTop, path)
        if not (top == fresh) or top.name != case["name"]:
            raise PropertyViolation("copy-independent", "mutating the copy changed the original")
        for k, at in enumerate(top):
            if set(at.bonds) != exp_nb[k] or at.name != exp_atoms[k][0]:
                raise PropertyViolation("copy-independent", "mutating the copy changed atom %d of the original" % k)
    # a topology edited through the public API after loading (AtomTop.connect), then copied: the copy equals the edited
    # object (not the file), and a copy of that copy too
    if n >= 2:
        work = lib("load", MoleculeTop, path)
        nb_now = [set(s_) for s_ in exp_nb]
        a, b = 0, n - 1
        lib("connect", work[a].connect, work[b])
        nb_now[a].add(b)
        nb_now[b].add(a)
        if n >= 4:
            lib("connect", work[1].connect, work[n - 2])
            nb_now[1].add(n - 2)
            nb_now[n - 2].add(1)
        c1 = lib("copy", work.copy)
        c2 = lib("copy", c1.copy)
        for nm, obj in (("edited topology", work), ("copy of the edited topology", c1), ("copy of that copy", c2)):
            for k, at in enumerate(obj):
                if set(at.bonds) != nb_now[k]:
                    raise PropertyViolation("copy-equal", "%s: atom %d bonded to %r, expected %r (bonds %d-%d added with connect "
                                            "after loading)" % (nm, k, sorted(at.bonds), sorted(nb_now[k]), a, b),
                                            cls="copy-equal:after-connect")
        if not (c1 == work and c2 == work):
            raise PropertyViolation("copy-equal", "a copy of a topology edited after loading is not equal to it",
                                    cls="copy-equal:after-connect")
        if bool(lib("connectivity", are_connected, c2.atoms)) != indep.connected(n, edges + [(a, b)] + ([(1, n - 2)] if n >= 4 else [])):
            raise PropertyViolation("connectivity", "are_connected on the copy of an edited topology disagrees with its graph")
    lp = longest_path_lower_bound(n, edges)
    gap = case["numbering"] in ("gaps", "offset")
    nt = (gap and len(case["used_sections"]) >= 2) or lp > 1000
    return {"nontrivial": nt,
            "classes": ["graph:" + case["graph"], "numbering:" + case["numbering"], "layout:" + case["layout"],
                        "path>1000" if lp > 1000 else "path<=1000", "noise" if case["style"]["noise"] else "plain",
                        "crlf" if case.get("crlf") else "lf"],
            "sample": {k: case[k] for k in ("name", "n", "graph", "numbering", "layout", "sections", "style")} |
                      {"text_head": case["text"][:600]}}


SUBCHECKS = [
    Sub("topology", check, strategy=lambda tier: case_strategy(tier), quick=2400, thorough=90000,
        min_share={"path>1000": 0.01, "layout:repeat-bonds": 0.08, "numbering:gaps": 0.3}),
    Sub("rewrite", check_rewrite, strategy=lambda tier: case_strategy("quick", with_variant=True), quick=800, thorough=30000,
        min_share={"same-size": 0.5, "graph-differs": 0.3},
        note="the same path rewritten with another topology of equal byte size (and equal mtime) between loads"),
]
