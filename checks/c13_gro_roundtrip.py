"""C13  Writing then reading a .gro file returns the same system."""
import numpy as np
from hypothesis import strategies as st

from vlib import env, gen, indep  # noqa: F401
from vlib.build import lib
from vlib.report import PropertyViolation
from vlib.runner import Sub

from gaddlemaps.parsers import GroFile, open_coordinate_file

PROPERTY = "C13"
LEVEL = "exploration"
RULE = ("1..300 records; names of 1..5 printable non-blank ASCII characters; residue/atom numbers from [0,10^7] with "
        "the boundary values {0,1,99998,99999,100000,100001,199998,199999,200000,9999999,10^7} at high weight; "
        "coordinates = integer multiples of the last written decimal spanning the field's full range (negative, "
        "maximal) plus sub-resolution offsets up to 0.4999 units; velocities on/off; titles set / unset / with "
        "trailing newline / with multi-byte characters; box unset / 3-vector / diagonal / triclinic; position format unset or (d+5,d), d=1..6; "
        "atom count declared or filled on close; writeline / writelines (one call, or chunks of 0, 1 or more records) / context manager; optionally another file of "
        "another format / length written (and read) through the library just before, under the same or another path. Non-trivial = >=2 records "
        "and (non-default format or velocities or a number >= 99998 or a triclinic box). Distinct = sha1 of the case.")
ASSUMPTIONS = [
    "values fit the field width (stated): positions in (-10^3, 10^4), velocities in (-10^2, 10^3) after rounding",
    "titles are non-empty, without line breaks: printable ASCII, or text with non-ASCII characters (2-, 3- and 4-byte "
    "UTF-8) when the locale encoding is UTF-8 (the library opens files in the locale's encoding); names are ASCII",
    "numbers above 99999 may wrap to any value of at most five digits (the statement does not fix the wrap rule)",
]

BOUNDARY = [0, 1, 99998, 99999, 100000, 100001, 199998, 199999, 200000, 9999999, 10000000]
# any printable text of 1..5 characters; a fifth of the names look like something else: numbers, full-width names,
# names starting with digits, with a sign, a dot, an exponent
NUMBERLIKE = ["1", "12", "100", "4", "0.5", "1e3", "-2", "+7", "2PG", "3HB", "HO6AB", "GLYCN", "00012", "1.0e2", "nan", "inf"]
NAME = st.one_of(st.text(st.characters(min_codepoint=33, max_codepoint=126), min_size=1, max_size=5),
                 st.text(st.characters(min_codepoint=33, max_codepoint=126), min_size=1, max_size=5),
                 st.text(st.characters(min_codepoint=33, max_codepoint=126), min_size=1, max_size=5),
                 st.text(st.characters(min_codepoint=33, max_codepoint=126), min_size=1, max_size=5),
                 st.sampled_from(NUMBERLIKE))
NUMBER = st.one_of(st.sampled_from(BOUNDARY), st.integers(0, 10 ** 7), st.integers(0, 3000))


def grid_values(rng, count, decimals, int_digits_pos, int_digits_neg):
    """Floats k/10^d + offset that format into the field exactly as k."""
    unit = 10.0 ** (-decimals)
    hi = 10 ** (int_digits_pos + decimals) - 1
    lo = -(10 ** (int_digits_neg + decimals) - 1)
    kind = rng.integers(0, 4, count)
    ks = np.where(kind == 0, rng.integers(lo, hi + 1, count),
                  np.where(kind == 1, rng.integers(-5000, 5001, count),
                           np.where(kind == 2, rng.choice([lo, hi, 0, -1, 1, hi - 1, lo + 1], count),
                                    rng.integers(lo // 100, hi // 100 + 1, count))))
    ks = np.clip(ks, lo, hi)
    off = rng.choice([0.0, 0.0, 0.4999, -0.4999, 0.25, -0.3], count) * unit
    off = np.where((ks == hi) & (off > 0), 0.0, off)
    off = np.where((ks == lo) & (off < 0), 0.0, off)
    return (ks.astype(float) / 10.0 ** decimals + off), ks


@st.composite
def case_strategy(draw, tier="quick"):
    big = draw(st.integers(0, 9)) == 0
    n = draw(st.integers(20, 300)) if big else draw(st.integers(1, 12))
    fmt = draw(st.sampled_from([None, None, 1, 2, 3, 4, 5, 6]))
    d = 3 if fmt is None else fmt
    vel = draw(st.booleans())
    rng = np.random.default_rng(draw(gen.SEEDS))
    pos, kpos = grid_values(rng, 3 * n, d, 4, 3)
    if vel:
        v, kv = grid_values(rng, 3 * n, d + 1, 3, 2)
    few_names = draw(st.lists(NAME, min_size=1, max_size=4))
    recs = []
    for i in range(n):
        if big:
            rn, an = few_names[i % len(few_names)], few_names[(i * 7) % len(few_names)]
            resid = int(rng.choice(BOUNDARY)) if rng.random() < 0.3 else int(rng.integers(0, 10 ** 7))
            atomid = int(rng.choice(BOUNDARY)) if rng.random() < 0.3 else i + 1
        else:
            rn, an = draw(NAME), draw(NAME)
            resid, atomid = draw(NUMBER), draw(NUMBER)
        rec = [resid, rn, an, atomid] + pos[3 * i:3 * i + 3].tolist()
        if vel:
            rec += v[3 * i:3 * i + 3].tolist()
        recs.append(rec)
    title = draw(st.one_of(st.none(),
                           st.text(st.characters(min_codepoint=32, max_codepoint=126), min_size=1, max_size=60),
                           st.text(st.sampled_from(list("abc t=0.5 ") + ["\u00c5", "\u00e9", "\u00b0", "\u00b5", "\u2013", "\u4e2d", "\U0001d6fc"]),
                                   min_size=1, max_size=30).filter(lambda t: t.strip() != "")))
    if title is not None and draw(st.booleans()):
        title = title + "\n"
    bk = draw(st.sampled_from(["unset", "vector", "diagonal", "triclinic", "triclinic", "triclinic"]))
    if bk == "unset":
        box = None
    elif bk == "vector":
        box = np.round(rng.uniform(0.5, 900, 3), 5).tolist()
    elif bk == "diagonal":
        box = np.diag(np.round(rng.uniform(0.5, 900, 3), 5)).tolist()
    else:
        b = np.round(rng.uniform(-99, 99, (3, 3)), 5)
        b[np.diag_indices(3)] = np.round(rng.uniform(0.5, 900, 3), 5)
        shape = draw(st.sampled_from(["full", "lower", "upper", "single"]))
        if shape == "lower":          # GROMACS convention: lower triangular
            b[0, 1] = b[0, 2] = b[1, 2] = 0
        elif shape == "upper":
            b[1, 0] = b[2, 0] = b[2, 1] = 0
        elif shape == "single":       # exactly one off-diagonal component is non-zero
            keep = draw(st.sampled_from([(0, 1), (0, 2), (1, 0), (1, 2), (2, 0), (2, 1)]))
            val = b[keep] if b[keep] != 0 else 1.5
            b[~np.eye(3, dtype=bool)] = 0
            b[keep] = val
        box = b.tolist()
    return {"records": recs, "format": fmt, "vel": vel, "title": title, "box_kind": bk, "box": box,
            "declare": draw(st.booleans()),
            "api": draw(st.sampled_from(["writeline", "writelines", "with", "tuple", "strings", "chunks", "chunks"])),
            "chunks": draw(st.lists(st.sampled_from([0, 1, 1, 2, 3, 7]), min_size=1, max_size=6)),
            "reassign": draw(st.sampled_from([None, None, None, "triclinic-first", "vector-first"])),
            "early_close": draw(st.one_of(st.none(), st.none(), st.none(), st.integers(0, 1000))),
            "refused": draw(st.one_of(st.none(), st.none(), st.integers(0, 1000))),
            "read_api": draw(st.sampled_from(["path", "path", "fileobj", "open_coordinate_file", "iterate", "peek"])),
            "prior": draw(st.one_of(st.none(), st.fixed_dictionaries({
                "format": st.sampled_from([None, 1, 2, 4, 6]), "vel": st.booleans(), "n": st.integers(1, 40),
                "same_path": st.booleans(), "read": st.booleans()})))}


def write_with_library(case, path):
    recs = case["records"]
    f = GroFile(path, "w") if case["api"] != "with" else open_coordinate_file(path, "w")
    try:
        if case.get("reassign") and case["box"] is not None and case["title"] is not None:
            # header attributes set once with other values first (a template / a previous frame), then with the real ones
            f.comment = "provisional title"
            f.box_matrix = np.array([[7.5, 0.5, -0.25], [1.0, 8.0, 0.75], [2.0, -3.0, 9.0]])
            if case["reassign"] == "vector-first":
                f.box_matrix = np.array([3.0, 4.0, 5.0])
        if case["title"] is not None:
            f.comment = case["title"]
        if case["box"] is not None:
            f.box_matrix = np.array(case["box"], float)
        if case["format"] is not None:
            f.position_format = (case["format"] + 5, case["format"])
        if case["declare"]:
            f.natoms = len(recs)
        if case.get("early_close") and case["declare"] and len(recs) >= 2:
            # error-then-continue on one writer: close() is called before the declared number of records is there (it
            # refuses), the caller catches that, writes the rest and closes again
            k = 1 + case["early_close"] % (len(recs) - 1)
            for r in recs[:k]:
                f.writeline(list(r))
            try:
                f.close()
            except Exception:      # noqa: BLE001
                pass
            else:
                raise PropertyViolation("close-count-mismatch", "close() accepted %d records for a declared count of %d"
                                        % (k, len(recs)))
            for r in recs[k:]:
                f.writeline(list(r))
        elif case["api"] == "strings":
            # pre-formatted lines ("if it is a string, it will be written directly")
            d = 3 if case["format"] is None else case["format"]
            fd = {"position": (d + 5, d), "velocities": case["vel"]}
            for r in recs:
                f.writeline(GroFile.parse_atomlist(list(r), fd))
        elif case["api"] == "writelines":
            f.writelines([list(r) for r in recs])
        elif case["api"] == "chunks":
            # records handed over molecule by molecule: writelines with lists of 0, 1 or more records, single
            # records through writeline in between, the rest in one last call
            k = 0
            for i, size in enumerate(case.get("chunks", [1])):
                if k >= len(recs):
                    break
                if size == 1 and i % 2:
                    f.writeline(list(recs[k]))
                else:
                    f.writelines([list(r) for r in recs[k:k + size]])
                k += size
            if k < len(recs):
                f.writelines([list(r) for r in recs[k:]])
        elif case["api"] == "tuple":
            for r in recs:
                f.writeline(tuple(r))
        else:
            for k, r in enumerate(recs):
                if case.get("refused") is not None and len(recs) > 1 and k == 1 + case["refused"] % (len(recs) - 1):
                    # error-then-continue on one writer: a malformed record (five fields) is refused, the caller
                    # catches that and goes on writing.  (Never before the first record: the unchanged writer sets
                    # itself up from its first record and cannot be used after refusing it - no listed property
                    # covers that.)
                    try:
                        f.writeline([1, "BAD", "X", 1, 0.5] if case["refused"] % 2 else [1, "BAD", "X", 1, 0.5, 0.5])
                    except Exception:      # noqa: BLE001
                        pass
                f.writeline(list(r))
    finally:
        f.close()


def _utf8_locale():
    import locale
    return locale.getpreferredencoding(False).lower().replace("-", "") == "utf8"


def check(case):
    if case["title"] is not None and not case["title"].isascii() and not _utf8_locale():
        # files are opened in the locale's encoding: non-ASCII titles are only meaningful under a UTF-8 locale
        case = dict(case, title=case["title"].encode("ascii", "replace").decode("ascii"))
    path = env.fresh_path(".v2.final.gro" if len(case["records"]) % 2 else ".gro")    # dots in the name are legal
    recs = case["records"]
    d = 3 if case["format"] is None else case["format"]
    w = d + 5
    tag = "fmt:%s" % ("default" if case["format"] is None else "custom")
    prior = case.get("prior")
    if prior:
        # another file (other format, velocities, length, box) went through the library just before - optionally under
        # the very same path, which the main write then has to replace completely
        pd = 3 if prior["format"] is None else prior["format"]
        prec = [[7 + i, "PRI", "X%d" % (i % 9), i + 1, 1.0 * i, -2.0, 0.5] + ([0.1, 0.2, -0.3] if prior["vel"] else [])
                for i in range(prior["n"])]
        ppath = path if prior["same_path"] else env.fresh_path(".gro")
        lib("write", write_with_library, {"records": prec, "format": prior["format"], "vel": prior["vel"],
                                          "title": "prior file", "box": [[9.0, 0, 0], [1.0, 8.0, 0], [2.0, 3.0, 7.0]],
                                          "declare": True, "api": "writeline"}, ppath)
        if prior["read"]:
            def rd_prior():
                g = GroFile(ppath)
                try:
                    return g.readlines(), g.box_matrix
                finally:
                    g.close()
            back, _ = lib("read", rd_prior)
            if len(back) != prior["n"]:
                raise PropertyViolation("count", "prior file: wrote %d records, read %d" % (prior["n"], len(back)))
    lib("write", write_with_library, case, path)
    with open(path, "rb") as fb:
        raw = fb.read()

    def rd():
        how = case.get("read_api", "path")
        if how == "fileobj":
            g = GroFile(open(path))
        elif how == "open_coordinate_file":
            g = open_coordinate_file(path)
        else:
            g = GroFile(path)
        try:
            if how == "peek" and g.natoms:
                # the caller looks at the raw text of a line first (readline(parsed=False)), goes back and reads on
                k = len(recs) // 2
                g.seek_atom(k)
                g.readline(parsed=False)
                g.seek_atom(k)
                mid = next(g)
                g.seek_atom(0)
                g.readline(parsed=False)
                g.seek_atom(0)
                recs_ = g.readlines()
                if tuple(mid) != tuple(recs_[k]):
                    raise PropertyViolation("peek", "record %d read after a raw look differs from the same record read in "
                                            "sequence" % k)
                fmt_read[0] = tuple(g.position_format)
                return recs_, np.array(g.box_matrix, float), g.comment, g.natoms
            recs_ = [next(g) for _ in range(g.natoms)] if how == "iterate" else g.readlines()
            fmt_read[0] = tuple(g.position_format)
            return recs_, np.array(g.box_matrix, float), g.comment, g.natoms
        finally:
            g.close()
    fmt_read = [None]
    got, box, comment, natoms = lib("read", rd)
    if fmt_read[0] != (w, d):
        raise PropertyViolation("format-readback", "file written with position format %r reports %r when read"
                                % ((w, d), fmt_read[0]))
    if natoms != len(recs) or len(got) != len(recs):
        raise PropertyViolation("count", "wrote %d records, natoms=%r, read %d" % (len(recs), natoms, len(got)))
    big_number = False
    for i, (a, b) in enumerate(zip(recs, got)):
        b = list(b)
        if len(b) != len(a):
            raise PropertyViolation("fields", "record %d: wrote %d fields, read %d" % (i, len(a), len(b)))
        if (b[1], b[2]) != (a[1], a[2]):
            raise PropertyViolation("names", "record %d: names %r read back as %r" % (i, (a[1], a[2]), (b[1], b[2])))
        for k, nm in ((0, "residue"), (3, "atom")):
            if a[k] <= 99999:
                if b[k] != a[k]:
                    raise PropertyViolation("numbers", "record %d: %s number %d read back as %r" % (i, nm, a[k], b[k]),
                                            cls="numbers:%d" % a[k] if a[k] in BOUNDARY else "numbers")
            else:
                big_number = True
                if not (isinstance(b[k], int) and 0 <= b[k] <= 99999):
                    raise PropertyViolation("numbers-wrap", "record %d: %s number %d read back as %r" % (i, nm, a[k], b[k]))
            if a[k] >= 99998:
                big_number = True
        for k in range(4, 7):
            if not abs(b[k] - a[k]) <= 0.5 * 10.0 ** (-d) + 1e-12:
                raise PropertyViolation("positions", "record %d: coordinate %r read back as %r (d=%d)" % (i, a[k], b[k], d),
                                        cls="positions:" + tag)
        for k in range(7, len(a)):
            if not abs(b[k] - a[k]) <= 0.5 * 10.0 ** (-d - 1) + 1e-12:
                raise PropertyViolation("velocities", "record %d: velocity %r read back as %r (d=%d)" % (i, a[k], b[k], d + 1))
    # box
    if case["box"] is None:
        exp_box = np.zeros((3, 3))
    else:
        exp_box = np.array(case["box"], float)
        if exp_box.shape == (3,):
            exp_box = np.diag(exp_box)
    if box.shape != (3, 3) or not np.abs(box - exp_box).max() <= 5e-6:
        raise PropertyViolation("box", "box %r read back as %r" % (exp_box.tolist(), box.tolist()),
                                cls="box:" + case["box_kind"])
    # title
    exp_title = GroFile.DEFAULT_COMMENT if case["title"] is None else case["title"]
    if comment.rstrip("\n") != exp_title.rstrip("\n"):
        raise PropertyViolation("title", "title %r read back as %r" % (exp_title, comment))
    # raw bytes: one byte length for every atom line, numbers wrapped not widened
    lines = raw.split(b"\n")
    atom_lines = lines[2:2 + len(recs)]
    want = 20 + 3 * w * (2 if case["vel"] else 1)
    lens = set(len(l) for l in atom_lines)
    if lens != {want}:
        raise PropertyViolation("line-length", "atom lines have byte lengths %r, expected %d" % (sorted(lens), want))
    # the file is a standard .gro file: the independent reader sees the same records
    try:
        ind = indep.parse_gro_text(raw.decode("utf-8"))
    except Exception as exc:
        raise PropertyViolation("standard-format", "independent reader rejects the written file: %r" % (exc,))
    for i, (a, b) in enumerate(zip(got, ind["records"])):
        if tuple(a[:4]) != tuple(b[:4]) or not np.allclose(a[4:], b[4:], rtol=0, atol=1e-12):
            raise PropertyViolation("standard-format", "record %d: library reads %r, independent reader %r" % (i, a, b))
    nt = len(recs) >= 2 and (case["format"] is not None or case["vel"] or big_number or case["box_kind"] == "triclinic")
    return {"nontrivial": nt,
            "classes": [tag, "vel" if case["vel"] else "novel", "box:" + case["box_kind"],
                        "declared" if case["declare"] else "backfilled", "big-number" if big_number else "small-numbers",
                        "api:" + case["api"], "read:" + case.get("read_api", "path"),
                        "title:" + ("default" if case["title"] is None else "ascii" if case["title"].isascii() else "non-ascii"),
                        "prior:none" if not prior else "prior:same-path" if prior["same_path"] else "prior:other-path"],
            "sample": {"n": len(recs), "first": recs[:2], "format": case["format"], "title": case["title"],
                       "box": case["box"], "declare": case["declare"], "api": case["api"]}}


# ------------------------------------------------------------------ line level (the formatting mechanism itself)
@st.composite
def line_case(draw):
    fmt = draw(st.sampled_from([None, 1, 2, 3, 4, 5, 6]))
    d = 3 if fmt is None else fmt
    vel = draw(st.booleans())
    rng = np.random.default_rng(draw(gen.SEEDS))
    pos, _ = grid_values(rng, 3, d, 4, 3)
    rec = [draw(NUMBER), draw(NAME), draw(NAME), draw(NUMBER)] + pos.tolist()
    if vel:
        v, _ = grid_values(rng, 3, d + 1, 3, 2)
        rec += v.tolist()
    return {"record": rec, "format": fmt, "vel": vel}


def check_line(case):
    rec = case["record"]
    d = 3 if case["format"] is None else case["format"]
    w = d + 5
    fd = None if case["format"] is None else {"position": (w, d), "velocities": case["vel"]}
    line = lib("format-line", GroFile.parse_atomlist, list(rec), fd)
    want = 20 + 3 * w * (2 if case["vel"] else 1)
    if len(line) != want or "\n" in line:
        raise PropertyViolation("line-length", "record %r formats to %d characters, expected %d: %r" % (rec, len(line), want, line))
    back = lib("parse-line", GroFile.parse_atomline, line, fd)
    back2 = lib("parse-line-autodetect", GroFile.parse_atomline, line + "\n")
    if tuple(back) != tuple(back2):
        raise PropertyViolation("format-autodetect", "line %r parses to %r with the format given and to %r with the "
                                "format inferred" % (line, back, back2))
    if (back[1], back[2]) != (rec[1], rec[2]):
        raise PropertyViolation("names", "names %r read back as %r" % ((rec[1], rec[2]), (back[1], back[2])))
    for k in (0, 3):
        if rec[k] <= 99999 and back[k] != rec[k]:
            raise PropertyViolation("numbers", "number %d read back as %r" % (rec[k], back[k]))
        if not 0 <= back[k] <= 99999:
            raise PropertyViolation("numbers-wrap", "number %d read back as %r" % (rec[k], back[k]))
    for k in range(4, len(rec)):
        tol = 0.5 * 10.0 ** (-d if k < 7 else -d - 1) + 1e-12
        if not abs(back[k] - rec[k]) <= tol:
            raise PropertyViolation("values", "value %r read back as %r (d=%d)" % (rec[k], back[k], d))
    # the same line through the atom object
    from gaddlemaps.components import AtomGro
    if case["format"] is None:
        atom = AtomGro(list(rec))
        line2 = lib("atom-gro-line", atom.gro_line, False)
        if line2 != line:
            raise PropertyViolation("atom-line", "AtomGro.gro_line gives %r, the writer %r" % (line2, line))
    return {"nontrivial": case["format"] is not None or case["vel"] or max(rec[0], rec[3]) >= 99998,
            "classes": ["fmt:%s" % ("default" if case["format"] is None else "custom"), "vel" if case["vel"] else "novel"]}


SUBCHECKS = [
    Sub("roundtrip", check, strategy=lambda tier: case_strategy(tier), quick=4000, thorough=200000,
        min_share={"fmt:custom": 0.4, "vel": 0.3, "big-number": 0.3, "box:triclinic": 0.2}),
    Sub("line", check_line, strategy=lambda tier: line_case(), quick=12000, thorough=800000),
]
