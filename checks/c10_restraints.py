"""C10  Restraint pairs always designate the atoms the user (or the guesser) meant."""
import itertools

import numpy as np
from hypothesis import strategies as st

from vlib import env, gen, indep  # noqa: F401
from vlib.build import build_molecule, lib, positions, write_spec_itp
from vlib.report import HarnessError, PropertyViolation
from vlib.runner import Sub

import gaddlemaps
import gaddlemaps._alignment as alignment_mod
from gaddlemaps import Alignment, Manager, guess_protein_restrains, guess_residue_restrains
from gaddlemaps.components import AtomGro, Residue

from checks import align_common as ac

PROPERTY = "C10"
LEVEL = "exploration"
RULE = ("(routing) start/end molecules 1..40 atoms (either larger, equal sizes, random hydrogens, 1..3 residues), "
        "restraint lists with repeats, ignore_hydrogens on/off; the optimiser entry point is replaced by a recorder and "
        "the intended atoms are identified by their coordinates. (splitter) every pair of residue lengths 1..40 x 1..40 "
        "x 3 offsets, exhaustively. (protein) random multi-residue pairs incl. unequal residue counts. (manager) "
        "generated 2..3-species systems with per-species restraints, deformation types and hydrogen flags, unknown "
        "names and malformed values. Non-trivial (routing) = start smaller and filtering on and >=1 dropped and >=1 "
        "kept pair; other sub-checks: every case with >=2 atoms on both sides. Distinct = sha1 of the case JSON.")
ASSUMPTIONS = [
    "Manager restraints are 0-based and passed through unchanged (what the code and test_parse_restrictions establish)",
    "the recorder stands in for gaddlemaps._alignment.minimize_molecules and returns the mobile coordinates unchanged",
    "species in a generated system are told apart by their (unique) atom counts",
]


class Recorder:
    def __init__(self):
        self.calls = []

    def __call__(self, mol1, mol2, com, sigma, n_steps, restriction, bonds, width, sim_type):
        self.calls.append({"fixed": np.array(mol1, float).copy(), "mobile": np.array(mol2, float).copy(),
                           "restr": [tuple(int(v) for v in r) for r in restriction], "sim_type": sim_type,
                           "n_steps": n_steps})
        return np.array(mol2, float)

    def __enter__(self):
        self.orig = alignment_mod.minimize_molecules
        alignment_mod.minimize_molecules = self
        return self

    def __exit__(self, *a):
        alignment_mod.minimize_molecules = self.orig


# ------------------------------------------------------------------ (a) alignment routing
@st.composite
def routing_case(draw):
    pair = draw(ac.molecule_pair(max_atoms=40 if draw(st.integers(0, 3)) == 0 else 12,
                                 multi_residue=draw(st.integers(0, 3)) == 0))
    ns, ne = gen.spec_n(pair["start"]), gen.spec_n(pair["end"])
    if draw(st.integers(0, 4)) == 0:
        restr = draw(ac.restraint_list(ns, ne, max_len=10))
    else:
        restr = [[draw(st.integers(0, ns - 1)), draw(st.integers(0, ne - 1))]
                 for _ in range(draw(st.integers(2, 10)))]
    pair.update({"restr": restr, "ignore_h": draw(st.integers(0, 3)) > 0,
                 "deform": draw(ac.deformation_types(min(ns, ne))),
                 "guess": len(pair["start"]["residues"]) > 1 and draw(st.booleans()),
                 "ignore_default": draw(st.integers(0, 5)) == 0, "twice": draw(st.integers(0, 2)) == 0})
    if pair["ignore_default"]:
        pair["ignore_h"] = True            # documented default: hydrogens of the fixed molecule are ignored
    return pair


def check_routing(case):
    sspec, espec = case["start"], case["end"]
    start, end = build_molecule(sspec), build_molecule(espec)
    ns, ne = len(start), len(end)
    restr = [tuple(r) for r in case["restr"]]
    ali = lib("alignment", Alignment, start, end)
    if case.get("guess"):
        # no restraints given + several residues: the guessed restraints (validated by the 'protein'
        # sub-check) are the ones that must reach the optimiser, through the same swap / filter rules
        restr = [(int(i), int(j)) for i, j in lib("guess", guess_protein_restrains, ali.start, ali.end)]
        sizes_s = [len(r[2]) for r in sspec["residues"]]
        sizes_e = [len(r[2]) for r in espec["residues"]]
        o1 = o2 = 0
        for a, b in zip(sizes_s, sizes_e):
            validate_pairs([(i, j) for i, j in restr if o1 <= i < o1 + a], a, b, o1, o2, "guessed restraints")
            o1 += a
            o2 += b
    given = None if case.get("guess") else list(restr)        # ONE list object, handed over again for the second run
    with Recorder() as rec:
        if case.get("ignore_default"):
            lib("align", ali.align_molecules, given,
                None if case["deform"] is None else tuple(case["deform"]))
        else:
            lib("align", ali.align_molecules, given,
                None if case["deform"] is None else tuple(case["deform"]), case["ignore_h"], True)
    if ne == 1:
        if rec.calls:
            raise PropertyViolation("single-atom-end", "optimiser called for a single-atom end molecule")
        return {"nontrivial": False, "classes": ["single-atom-end"]}
    if len(rec.calls) != 1:
        raise HarnessError("optimiser entry point called %d times: the recorder is bypassed" % len(rec.calls))
    call = rec.calls[0]
    swap = ns < ne
    s_now, e_now = positions(ali.start), positions(ali.end)       # after the initial translation of start
    fixed_pos, mobile_pos = (e_now, s_now) if swap else (s_now, e_now)
    fixed_names = ac.atom_names(espec if swap else sspec)
    keep = [k for k, nm in enumerate(fixed_names) if not (case["ignore_h"] and ac.is_hydrogen(nm))]
    newidx = {k: i for i, k in enumerate(keep)}
    label = "start %d / end %d atoms, ignore_h %r" % (ns, ne, case["ignore_h"])
    # the arrays handed to the optimiser
    if call["mobile"].shape != mobile_pos.shape or not np.array_equal(call["mobile"], mobile_pos):
        raise PropertyViolation("mobile-array", "%s: the mobile array is not the smaller molecule" % label)
    if call["fixed"].shape != (len(keep), 3) or not np.array_equal(call["fixed"], fixed_pos[keep]):
        raise PropertyViolation("fixed-array", "%s: the fixed array is not the larger molecule%s"
                                % (label, " without hydrogens" if case["ignore_h"] else ""))
    # expected list, from the statement
    exp = []
    dropped = 0
    for i, j in restr:
        f, m = (j, i) if swap else (i, j)
        if f in newidx:
            exp.append((newidx[f], m))
        else:
            dropped += 1
    if call["restr"] != exp:
        raise PropertyViolation("restraint-list", "%s: restraints %r reach the optimiser as %r, expected %r "
                                "(swap %r, kept fixed atoms %r)" % (label, restr, call["restr"], exp, swap, keep[:12]),
                                cls="restraint-list:%s%s" % ("swap" if swap else "noswap", "+filter" if case["ignore_h"] else ""))
    # independently of that computation: the rows designate the intended atoms
    intended = [(i, j) for i, j in restr if ((j if swap else i) in newidx)]
    for (a, b), (i, j) in zip(call["restr"], intended):
        want_f = (e_now[j] if swap else s_now[i])
        want_m = (s_now[i] if swap else e_now[j])
        if not (0 <= a < len(call["fixed"]) and 0 <= b < len(call["mobile"])) or \
                not np.array_equal(call["fixed"][a], want_f) or not np.array_equal(call["mobile"][b], want_m):
            raise PropertyViolation("designated-atoms", "%s: restraint (%d,%d) designates other atoms than start %d / "
                                    "end %d" % (label, a, b, i, j))
    if given is not None and case.get("twice") and ne > 1:
        # the same restraint list object is used for a second alignment (e.g. another conformation, another seed):
        # it must designate the same atoms again
        with Recorder() as rec2:
            if case.get("ignore_default"):
                lib("align", ali.align_molecules, given, None if case["deform"] is None else tuple(case["deform"]))
            else:
                lib("align", ali.align_molecules, given,
                    None if case["deform"] is None else tuple(case["deform"]), case["ignore_h"], True)
        if len(rec.calls) == 1 and len(rec2.calls) == 1 and rec2.calls[0]["restr"] != rec.calls[0]["restr"]:
            raise PropertyViolation("restraint-list-reused", "the same restraint list object given to a second alignment "
                                    "reaches the optimiser as %r, the first time as %r (given %r, now %r)"
                                    % (rec2.calls[0]["restr"], rec.calls[0]["restr"], restr, given),
                                    cls="restraint-list-reused")
    nt = swap and case["ignore_h"] and dropped >= 1 and len(exp) >= 1
    return {"nontrivial": nt,
            "classes": ["swap" if swap else "noswap", "filter" if case["ignore_h"] else "nofilter",
                        "dropped" if dropped else "none-dropped", "restr:%s" % ("0" if not restr else "1+"),
                        "relation:" + case["relation"], "guessed" if case.get("guess") else "given"],
            "sample": {"n_start": ns, "n_end": ne, "restr": case["restr"], "ignore_h": case["ignore_h"],
                       "fixed_names": fixed_names[:10], "received": call["restr"]}}


# ------------------------------------------------------------------ (b) per-residue splitter, exhaustive
def _plain_residue(n, resid=1, name="RES"):
    return Residue([AtomGro([resid, name, "C%d" % (k + 1), k + 1, 0.1 * k, 0.0, 0.0]) for k in range(n)])


def splitter_cases(tier, seed):
    cases = [{"n1": a, "n2": b, "off1": o1, "off2": o2}
             for a in range(1, 41) for b in range(1, 41) for (o1, o2) in ((0, 0), (7, 3), (100, 250))]
    return cases, True


def validate_pairs(pairs, n1, n2, off1, off2, label):
    """Every atom has a partner, in range, monotone in both indices, contiguous groups."""
    if not pairs:
        raise PropertyViolation("splitter-empty", "%s: no restraints" % label)
    for i, j in pairs:
        if not (off1 <= i < off1 + n1 and off2 <= j < off2 + n2):
            raise PropertyViolation("splitter-range", "%s: pair (%d,%d) out of range" % (label, i, j))
    if set(i for i, _ in pairs) != set(range(off1, off1 + n1)):
        raise PropertyViolation("splitter-coverage", "%s: atoms of the first residue without partner: %r"
                                % (label, sorted(set(range(off1, off1 + n1)) - set(i for i, _ in pairs))[:5]))
    if set(j for _, j in pairs) != set(range(off2, off2 + n2)):
        raise PropertyViolation("splitter-coverage", "%s: atoms of the second residue without partner: %r"
                                % (label, sorted(set(range(off2, off2 + n2)) - set(j for _, j in pairs))[:5]))
    partners = {}
    for i, j in pairs:
        partners.setdefault(i, []).append(j)
    prev_hi = None
    for i in sorted(partners):
        js = sorted(partners[i])
        if js != list(range(js[0], js[-1] + 1)):
            raise PropertyViolation("splitter-contiguous", "%s: partners of atom %d are not contiguous: %r" % (label, i, js))
        if prev_hi is not None and js[0] < prev_hi[0]:
            raise PropertyViolation("splitter-order", "%s: atom order not preserved at atom %d (%r after %r)"
                                    % (label, i, js, prev_hi))
        if prev_hi is not None and js[-1] < prev_hi[1]:
            raise PropertyViolation("splitter-order", "%s: atom order not preserved at atom %d" % (label, i))
        prev_hi = (js[0], js[-1])
    if len(set(pairs)) != len(pairs):
        raise PropertyViolation("splitter-duplicates", "%s: duplicated pairs" % label)


def check_splitter(case):
    n1, n2, o1, o2 = case["n1"], case["n2"], case["off1"], case["off2"]
    r1, r2 = _plain_residue(n1), _plain_residue(n2, 2, "OTH")
    got = lib("splitter", guess_residue_restrains, r1, r2, o1, o2)
    pairs = [(int(i), int(j)) for i, j in got]
    validate_pairs(pairs, n1, n2, o1, o2, "residue lengths %d x %d, offsets %d/%d" % (n1, n2, o1, o2))
    # the returned list is the caller's (edited e.g. while adding manual restraints): a later guess for residues of the
    # same sizes is the same list of pairs again
    try:
        del got[::2]
        got.append((10 ** 6, 10 ** 6))
    except (TypeError, AttributeError):
        pass
    again = [(int(i), int(j)) for i, j in lib("splitter", guess_residue_restrains, _plain_residue(n1, 5, "AAA"),
                                              _plain_residue(n2, 6, "BBB"), o1, o2)]
    if again != pairs:
        raise PropertyViolation("splitter-repeatable", "residue lengths %d x %d: after the caller edited the first result, the "
                                "same guess gives %r instead of %r" % (n1, n2, again[:6], pairs[:6]))
    return {"nontrivial": n1 > 1 and n2 > 1, "classes": ["n1<n2" if n1 < n2 else "n1>=n2"]}


# ------------------------------------------------------------------ (c) protein guesser
@st.composite
def protein_case(draw):
    nres = draw(st.integers(2, 7))
    sizes1 = [draw(st.integers(1, 7)) for _ in range(nres)]
    sizes2 = [draw(st.integers(1, 12)) for _ in range(nres)]
    unequal = draw(st.integers(0, 4)) == 0
    if unequal:
        sizes2 = sizes2 + [draw(st.integers(1, 4))] if draw(st.booleans()) else sizes2[:-1]
    names = [draw(st.sampled_from(["ALA", "GLY", "LYS", "SER", "VAL"])) for _ in range(max(len(sizes1), len(sizes2)))]
    return {"sizes1": sizes1, "sizes2": sizes2, "names": names, "unequal": unequal, "seed": draw(gen.SEEDS)}


def _protein(name, sizes, resnames, rng, chains=1):
    n = sum(sizes)
    edges = [[k, k + 1] for k in range(n - 1)]
    residues = []
    k = 0
    half = (len(sizes) + 1) // 2 if chains == 2 and len(sizes) >= 4 else None
    for r, sz in enumerate(sizes):
        if half:
            # two chains with the same sequence, each numbered from 1: the labels "1GLY", "2ALA", ... occur twice
            residues.append([resnames[r % half], r % half + 1, ["C%d" % (k + i + 1) for i in range(sz)]])
        else:
            residues.append([resnames[r], r + 1, ["C%d" % (k + i + 1) for i in range(sz)]])
        k += sz
    spec = {"name": name, "edges": edges, "residues": residues}
    return gen.with_coords(spec, gen.walk_geometry(n, edges, rng))


def check_protein(case):
    rng = np.random.default_rng(case["seed"])
    chains = 2 if case["seed"] % 3 == 1 else 1
    m1 = build_molecule(_protein("PROT", case["sizes1"], case["names"], rng, chains))
    m2 = build_molecule(_protein("PROT", case["sizes2"], case["names"], rng, chains))
    if case["seed"] % 3 == 0:
        # atom and residue numbers as a large coordinate file shows them: not starting at 1, wrapping 99999 -> 0 inside
        # the molecule (restraints are positions in the molecule, never file numbers)
        for mol, off in ((m1, 99990 + case["seed"] % 7), (m2, 99985 + case["seed"] % 11)):
            mol.atoms_ids = [(off + k) % 100000 for k in range(len(mol))]
            mol.resids = [(off + 3 * r) % 100000 for r in range(len(mol.resids))]
    label = "residue sizes %r vs %r" % (case["sizes1"], case["sizes2"])
    if case["unequal"]:
        try:
            with env.quiet():
                guess_protein_restrains(m1, m2)
        except Exception:     # noqa: BLE001
            return {"nontrivial": True, "classes": ["unequal-refused"]}
        raise PropertyViolation("protein-unequal", "%s: different numbers of residues were accepted" % label)
    pairs = [(int(i), int(j)) for i, j in lib("protein", guess_protein_restrains, m1, m2)]
    o1 = o2 = 0
    seen = set()
    for s1, s2 in zip(case["sizes1"], case["sizes2"]):
        mine = [(i, j) for i, j in pairs if o1 <= i < o1 + s1]
        for i, j in mine:
            if not o2 <= j < o2 + s2:
                raise PropertyViolation("protein-same-position", "%s: pair (%d,%d) joins residues at different "
                                        "sequence positions" % (label, i, j))
        validate_pairs(mine, s1, s2, o1, o2, label + " residue at %d/%d" % (o1, o2))
        seen.update(mine)
        o1 += s1
        o2 += s2
    if seen != set(pairs):
        raise PropertyViolation("protein-range", "%s: pairs outside both molecules: %r" % (label, sorted(set(pairs) - seen)[:4]))
    # order preserved: the list is sorted by first index
    if [p[0] for p in pairs] != sorted(p[0] for p in pairs):
        raise PropertyViolation("protein-order", "%s: restraints are not in atom order" % label)
    return {"nontrivial": True, "classes": ["equal-counts"]}


# ------------------------------------------------------------------ (d) manager routing
@st.composite
def manager_case(draw):
    nsp = draw(st.integers(2, 3))
    sizes = draw(st.lists(st.integers(2, 9), min_size=2 * nsp, max_size=2 * nsp, unique=True))
    species = []
    for k in range(nsp):
        species.append({"name": "SP%d" % k, "ns": sizes[2 * k], "ne": sizes[2 * k + 1]})
    opts = {}
    for sp in species:
        o = {}
        if draw(st.booleans()):
            o["restr"] = draw(ac.restraint_list(sp["ns"], sp["ne"], max_len=4))
        if draw(st.booleans()):
            o["deform"] = draw(st.sampled_from([[0], [0, 1], [1], [0, 1, 2], [2, 0]]))
        if draw(st.booleans()):
            o["ignore"] = draw(st.booleans())
        opts[sp["name"]] = o
    bad = draw(st.sampled_from([None, None, "unknown-restr", "unknown-deform", "unknown-ignore", "restr-not-pair",
                                "restr-index", "deform-not-seq", "deform-too-long", "ignore-not-bool"]))
    return {"species": species, "opts": opts, "bad": bad, "seed": draw(gen.SEEDS),
            "hydrogens": draw(st.booleans()),
            "route": draw(st.sampled_from(["direct", "direct", "preparsed", "preparsed-reordered"])),
            "dict_order": draw(st.permutations(list(range(nsp))))}


def build_manager(case):
    """The system, topologies and end molecules of a manager_case(); returns (manager, specs).  Shared with C06 / C09."""
    rng = np.random.default_rng(case["seed"])
    specs = {}
    records = []
    resid = 0
    itps = []
    for sp in case["species"]:
        for which, n in (("start", sp["ns"]), ("end", sp["ne"])):
            edges = [[k, k + 1] for k in range(n - 1)]
            names = ["%s%d" % ("H" if (case["hydrogens"] and k % 3 == 1) else "C", k + 1) for k in range(n)]
            spec = {"name": sp["name"], "edges": edges, "residues": [["R" + sp["name"][2:] + which[0].upper(), 1, names]]}
            specs[(sp["name"], which)] = gen.with_coords(spec, gen.walk_geometry(n, edges, rng))
        s = specs[(sp["name"], "start")]
        for inst in range(2):
            resid += 1
            for k, an in enumerate(s["residues"][0][2]):
                xyz = np.round(np.array(s["coords"][k]) + inst, 3)
                records.append((resid, s["residues"][0][0], an, len(records) + 1) + tuple(xyz))
        itps.append(write_spec_itp(s))
    gro = env.fresh_path(".gro")
    indep.write_gro(gro, "manager system", records, [20.0, 20.0, 20.0])
    man = lib("manager", Manager.from_files, gro, *itps)
    for sp in case["species"]:
        lib("end", man.add_end_molecule, build_molecule(specs[(sp["name"], "end")]))
    return man, specs


def check_manager(case):
    man, specs = build_manager(case)
    restr = {n: [tuple(r) for r in o["restr"]] for n, o in case["opts"].items() if "restr" in o}
    deform = {n: tuple(o["deform"]) for n, o in case["opts"].items() if "deform" in o}
    ignore = {n: o["ignore"] for n, o in case["opts"].items() if "ignore" in o}
    bad = case["bad"]
    # the species that carries the malformed value: the first or the last of the system (the refusal has to come before
    # ANY species is aligned, not just before the one concerned)
    first = case["species"][-1 if len(case["species"][0]["name"]) + case["species"][0]["ns"] + len(case["species"]) & 1 else 0]
    if bad == "unknown-restr":
        restr["NOPE"] = [(0, 0)]
    elif bad == "unknown-deform":
        deform["NOPE"] = (0,)
    elif bad == "unknown-ignore":
        ignore["NOPE"] = True
    elif bad == "restr-not-pair":
        restr[first["name"]] = [(0, 0, 0)]
    elif bad == "restr-index":
        restr[first["name"]] = [(first["ns"] + 5, 0)]
    elif bad == "deform-not-seq":
        deform[first["name"]] = 1
    elif bad == "deform-too-long":
        deform[first["name"]] = (0, 1, 2, 0)
    elif bad == "ignore-not-bool":
        ignore[first["name"]] = "yes"
    with Recorder() as rec:
        if bad:
            try:
                with env.quiet():
                    man.align_molecules(restr or None, deform or None, ignore or None)
            except Exception:     # noqa: BLE001
                if rec.calls:
                    raise PropertyViolation("reject-before-run", "malformed option %s was rejected only after %d "
                                            "alignment(s) ran" % (bad, len(rec.calls)))
                return {"nontrivial": True, "classes": ["bad:" + bad]}
            raise PropertyViolation("reject-malformed", "malformed option %s was accepted (%d alignments ran)"
                                    % (bad, len(rec.calls)), cls="reject-malformed:" + bad)
        names = [sp["name"] for sp in case["species"]]
        order = [names[i] for i in case.get("dict_order", range(len(names)))]
        # option dictionaries are given in an arbitrary key order
        deform = {n: deform[n] for n in order if n in deform}
        ignore = {n: ignore[n] for n in reversed(order) if n in ignore}
        route = case.get("route", "direct")
        if route == "direct":
            restr = {n: restr[n] for n in order if n in restr}
            lib("align", man.align_molecules, restr or None, deform or None, ignore or None)
        else:
            # documented two-step use: validate first, then align with parse_restrictions=False
            parsed = lib("parse", man.parse_restrictions, restr or None)
            if route == "preparsed-reordered":
                parsed = {n: parsed[n] for n in order if n in parsed}
            lib("align", man.align_molecules, parsed, deform or None, ignore or None, False)
    by_size = {}
    for c in rec.calls:
        by_size[(len(c["mobile"]))] = c
    if len(rec.calls) != len(case["species"]):
        raise PropertyViolation("one-run-per-species", "%d alignments for %d species" % (len(rec.calls), len(case["species"])))
    for sp in case["species"]:
        name = sp["name"]
        ns, ne = sp["ns"], sp["ne"]
        swap = ns < ne
        mobile_n = min(ns, ne)
        calls = [c for c in rec.calls if len(c["mobile"]) == mobile_n]
        if len(calls) != 1:
            raise HarnessError("species cannot be identified by atom count")
        c = calls[0]
        o = case["opts"][name]
        ign = o.get("ignore", True)
        fnames = ac.atom_names(specs[(name, "end" if swap else "start")])
        keep = [k for k, nm in enumerate(fnames) if not (ign and ac.is_hydrogen(nm))]
        newidx = {k: i for i, k in enumerate(keep)}
        exp = []
        for i, j in o.get("restr", []):
            f, m = (j, i) if swap else (i, j)
            if f in newidx:
                exp.append((newidx[f], m))
        if c["restr"] != exp:
            raise PropertyViolation("manager-restraints", "species %s: restraints %r reached its alignment as %r, "
                                    "expected %r" % (name, o.get("restr"), c["restr"], exp))
        if len(c["fixed"]) != len(keep):
            raise PropertyViolation("manager-hydrogens", "species %s: ignore_hydrogens=%r but %d of %d fixed atoms were "
                                    "passed" % (name, ign, len(c["fixed"]), len(fnames)))
        exp_def = tuple(o["deform"]) if "deform" in o else (0, 1, 2)
        if tuple(c["sim_type"]) != exp_def:
            raise PropertyViolation("manager-deformations", "species %s: deformation types %r reached its alignment "
                                    "as %r" % (name, exp_def, c["sim_type"]))
    return {"nontrivial": True, "classes": ["bad:none", "species:%d" % len(case["species"]),
                                            "route:" + case.get("route", "direct")],
            "sample": {"species": case["species"], "opts": case["opts"], "route": case.get("route")}}


# ------------------------------------------------------------------ (e) Manager: guessed restraints only when asked for
@st.composite
def guess_case(draw):
    nres = draw(st.sampled_from([1, 2, 3, 3, 4, 4, 5, 6]))
    sizes_s = draw(st.lists(st.integers(1, 3), min_size=nres, max_size=nres))
    sizes_e = draw(st.lists(st.integers(1, 4), min_size=nres, max_size=nres))
    if sum(sizes_s) == sum(sizes_e):
        sizes_e[0] += 1
    ns, ne = sum(sizes_s), sum(sizes_e)
    return {"sizes_s": sizes_s, "sizes_e": sizes_e,
            "restr": draw(st.one_of(st.none(), ac.restraint_list(ns, ne, max_len=4))),
            "flag": draw(st.sampled_from(["default", "default", "false", "true", "true"])), "seed": draw(gen.SEEDS)}


def check_guess(case):
    rng = np.random.default_rng(case["seed"])
    nres = len(case["sizes_s"])

    def spec(sizes, tag):
        residues, k = [], 0
        for r, sz in enumerate(sizes):
            residues.append(["G%d" % r, r + 1, ["%s%d" % (tag, k + i + 1) for i in range(sz)]])
            k += sz
        edges = [[i, i + 1] for i in range(k - 1)]
        return gen.with_coords({"name": "PROT", "edges": edges, "residues": residues}, gen.walk_geometry(k, edges, rng))
    s, e = spec(case["sizes_s"], "C"), spec(case["sizes_e"], "N")
    records = []
    for inst in range(2):
        k = 0
        for rn, ri, names in s["residues"]:
            for an in names:
                xyz = np.round(np.array(s["coords"][k]) + 3 * inst, 3)
                records.append((ri + 10 * inst, rn, an, len(records) + 1) + tuple(xyz))
                k += 1
    gro = env.fresh_path(".gro")
    indep.write_gro(gro, "one multi-residue species", records, [20.0, 20.0, 20.0])
    man = lib("manager", Manager.from_files, gro, write_spec_itp(s))
    lib("end", man.add_end_molecule, build_molecule(e))
    user = None if not case["restr"] else {"PROT": [tuple(r) for r in case["restr"]]}
    if case["flag"] == "default":
        parsed = lib("parse", man.parse_restrictions, user)
    else:
        parsed = lib("parse", man.parse_restrictions, user, case["flag"] == "true")
    got = parsed.get("PROT")
    got = None if not got else [tuple(int(v) for v in p) for p in got]
    guessed = case["flag"] == "true" and nres > 3
    if guessed:
        corr = man.molecule_correspondence["PROT"]
        exp = [tuple(int(v) for v in p) for p in lib("guess", guess_protein_restrains, corr.start, corr.end)]
        what = "guessed restraints (asked for, %d residues)" % nres
    else:
        exp = None if user is None else list(user["PROT"])
        what = "the restraints the user gave (%s, %d residues)" % (
            "guessing not asked for" if case["flag"] != "true" else "guessing only applies to more than 3 residues", nres)
    if got != exp:
        raise PropertyViolation("manager-guess", "parse_restrictions(%s, guess flag %s) returns %r for the species, expected %s: %r"
                                % ("None" if user is None else "user restraints", case["flag"], got if got is None else got[:6],
                                   what, exp if exp is None else exp[:6]),
                                cls="manager-guess:%s" % ("guessed" if guessed else "user"))
    return {"nontrivial": nres > 3, "classes": ["flag:" + case["flag"], "residues:%s" % (">3" if nres > 3 else "<=3"),
                                                 "user-restraints" if user else "no-user-restraints"]}


SUBCHECKS = [
    Sub("routing", check_routing, strategy=lambda tier: routing_case(), quick=6000, thorough=240000,
        min_share={"swap": 0.3, "filter": 0.3, "nontrivial": 0.05}),
    Sub("splitter", check_splitter, enumerate=splitter_cases, note="all residue lengths 1..40 x 1..40 x 3 offset pairs"),
    Sub("protein", check_protein, strategy=lambda tier: protein_case(), quick=1000, thorough=40000),
    Sub("manager", check_manager, strategy=lambda tier: manager_case(), quick=400, thorough=16000),
    Sub("guess", check_guess, strategy=lambda tier: guess_case(), quick=400, thorough=16000,
        note="Manager.parse_restrictions: the user's restraints unless guessing is asked for and the species has more than 3 residues"),
]
