"""C02  Exchange map commutes with rigid motion of the reference."""
import numpy as np
from hypothesis import strategies as st

from vlib import env, gen  # noqa: F401
from vlib.build import build_molecule, lib, positions
from vlib.report import HarnessError, PropertyViolation
from vlib.runner import Sub

from checks import xmap_common as xc

PROPERTY = "C02"
LEVEL = "exploration"
RULE = ("reference of 1, 2 or 3..20 atoms (geometry classes as C01), target 1..20 atoms, s in {1} u (0,2]; "
        "R = harness-built rotation (QR of a Gaussian matrix, or one of the 24 cube rotations), t up to +-50 nm "
        "(integer translations for the exact classes); the moved reference is a freshly built molecule or a "
        "copy with reassigned coordinates. Non-trivial = rotation angle > 0.1 rad and t != 0. "
        "Distinct = sha1 of the case JSON.")
ASSUMPTIONS = [
    "anchors are generic (sin >= 1e-3), exactly collinear, or near-collinear with sin in [1e-5,1e-3] (full equality is demanded "
    "there, with targets within ~1 nm and |t| <= 3 nm so that rounding stays 10x inside the 1e-8 tolerance); angles below 5e-6 "
    "that are not exactly collinear are not generated",
    "for a free axis only the invariants named in the statement are compared (distance to anchor, "
    "coordinate along the axis, distance from the axis, mutual distances of atoms sharing the anchor)",
    "the library's random completion of 1-/2-atom references is seeded with a Hypothesis-drawn seed",
]

TOL = 1e-8


@st.composite
def case_strategy(draw):
    size = draw(st.sampled_from(["1", "2", "3+", "3+", "3+", "3+"]))
    if size == "1":
        base = draw(xc.ref_tgt_case(nref=(1, 1), ntgt=(1, 12)))
    elif size == "2":
        base = draw(xc.ref_tgt_case(nref=(2, 2), ntgt=(1, 12)))
        if draw(st.integers(0, 2)) == 0:
            base["ref"]["edges"] = []           # a two-atom reference whose topology lists no bond between the atoms
    else:
        base = draw(xc.ref_tgt_case(nref=(3, 20), ntgt=(1, 20), nres_max=2))
    rng = np.random.default_rng(draw(gen.SEEDS))
    rk = draw(st.sampled_from(["general", "general", "cube", "identity", "tiny"]))
    if rk == "general":
        R = gen.random_rotation(rng)
    elif rk == "tiny":
        # a finite-difference step: micro-radian rotation (and, below, a translation of 1e-8..1e-5 nm)
        ax = rng.normal(size=3)
        ax /= np.linalg.norm(ax)
        ang = 10.0 ** rng.uniform(-7, -4.5)
        K = np.array([[0, -ax[2], ax[1]], [ax[2], 0, -ax[0]], [-ax[1], ax[0], 0]])
        R = np.eye(3) + np.sin(ang) * K + (1 - np.cos(ang)) * (K @ K)
    elif rk == "cube":
        R = gen.CUBE_ROTATIONS[draw(st.integers(0, 23))]
    else:
        R = np.eye(3)
    tk = draw(st.sampled_from(["float", "integer", "zero"]))
    if rk == "tiny":
        t = rng.uniform(-1, 1, 3) * 10.0 ** rng.uniform(-8, -5) if tk != "zero" else np.zeros(3)
    elif base["geom"] == "near-collinear":
        t = rng.uniform(-3, 3, 3) if tk != "zero" else np.zeros(3)
    elif tk == "float":
        t = rng.uniform(-50, 50, 3)
    elif tk == "integer":
        t = rng.integers(-50, 51, 3).astype(float)
    else:
        t = np.zeros(3)
    base.update({"size": size, "rkind": rk, "R": np.asarray(R, float).tolist(), "t": t.tolist(),
                 "how": draw(st.sampled_from(["fresh", "copy", "inplace", "inplace-atoms", "inplace-array", "inplace-residues"])),
                 "order": draw(st.sampled_from(["ref-first", "moved-first"])),
                 "seed1": draw(gen.SEEDS), "seed2": draw(gen.SEEDS),
                 "rescale": draw(st.sampled_from([None, None, None, 0.3, 1.0, 1.6])) if size == "3+" else None})
    return base


def _invariants(q, a, u):
    v = q - a
    along = float(v @ u)
    return float(np.linalg.norm(v)), along, float(np.linalg.norm(v - along * u))


def check(case):
    R = np.array(case["R"], float)
    t = np.array(case["t"], float)
    s = case["s"]
    rpos = np.array(case["ref"]["coords"], float)
    tpos = np.array(case["tgt"]["coords"], float)
    n = len(rpos)
    ref, tgt = xc.build_pair(case)
    np.random.seed(case["seed1"])
    M = xc.make_map(ref, tgt, s)
    mpos = rpos @ R.T + t
    if case.get("rescale") is not None:
        # the public attribute is re-assigned on the live map: whichever value the library then uses, it has to use
        # it for every later call alike (the comparisons below are between two calls)
        M.scale_factor = case["rescale"]
    np.random.seed(case["seed2"])
    if case["how"].startswith("inplace"):
        # the construction reference object itself is moved rigidly (in place) and mapped again - through the setter of
        # the whole array, atom by atom through the live views, by editing the stored arrays in place, or residue by residue
        out0 = positions(lib("map-apply", M, ref))
        if case["how"] == "inplace":
            ref.atoms_positions = mpos.copy()
        elif case["how"] == "inplace-atoms":
            for at, p_ in zip(ref, mpos):
                at.position = p_.copy()
        elif case["how"] == "inplace-array":
            for at, p_ in zip(ref, mpos):
                at.position[:] = p_
        else:
            k = 0
            for res in ref.residues:
                res.atoms_positions = mpos[k:k + len(res)].copy()
                k += len(res)
        if not np.array_equal(positions(ref), mpos):
            raise HarnessError("the in-place route %s did not move the molecule" % case["how"])
        out1 = positions(lib("map-apply-moved", M, ref))
    else:
        if case["how"] == "fresh":
            moved = build_molecule(case["ref"], coords=mpos)
        else:
            moved = lib("copy", ref.copy)
            moved.atoms_positions = mpos
        if case.get("order") == "moved-first":
            out1 = positions(lib("map-apply-moved", M, moved))
            out0 = positions(lib("map-apply", M, ref))
        else:
            out0 = positions(lib("map-apply", M, ref))
            out1 = positions(lib("map-apply-moved", M, moved))
    if not (np.all(np.isfinite(out0)) and np.all(np.isfinite(out1))):
        raise PropertyViolation("finite", "non-finite mapped coordinates (class %s)" % case["geom"])
    anchors, assign = xc.oracle_assignment(case)
    chosen = xc.check_equivalences(M, assign)
    classes = ["size:" + case["size"], "geom:" + case["geom"], "R:" + case["rkind"],
               "how:" + case["how"], "order:" + case.get("order", "ref-first")]

    def fail(clause, msg):
        raise PropertyViolation(clause, "%s (size %s, class %s, R %s)"
                                % (msg, case["size"], case["geom"], case["rkind"]),
                                cls="%s:%s" % (clause, "generic" if case["geom"] == "generic" else "degenerate"))

    if n >= 3:
        kinds = xc.classify_anchors(rpos, case["ref"]["edges"])
        triples = {a: (n1, n2) for a, n1, n2 in gen.anchor_triples(n, case["ref"]["edges"])}
        exp = out0 @ R.T + t
        by_anchor = {}
        for j, a in enumerate(chosen):
            by_anchor.setdefault(a, []).append(j)
            if kinds[a] in ("generic", "near"):
                err = float(np.abs(out1[j] - exp[j]).max())
                if not err <= TOL:
                    fail("equivariance", "atom %d (generic anchor %d): map(R ref+t) differs from "
                         "R map(ref)+t by %.3e" % (j, a, err))
            else:
                n2 = triples[a][1]
                u0 = rpos[n2] - rpos[a]
                u0 /= np.linalg.norm(u0)
                u1 = mpos[n2] - mpos[a]
                u1 /= np.linalg.norm(u1)
                i0 = _invariants(out0[j], rpos[a], u0)
                i1 = _invariants(out1[j], mpos[a], u1)
                for nm, x0, x1 in zip(("distance to anchor", "coordinate along axis",
                                       "distance from axis"), i0, i1):
                    if not abs(x0 - x1) <= TOL:
                        fail("axis-invariants", "atom %d (collinear anchor %d): %s %.12g -> %.12g"
                             % (j, a, nm, x0, x1))
        for a, js in by_anchor.items():
            if kinds[a] == "collinear" and len(js) > 1:
                d0 = np.linalg.norm(out0[js][:, None] - out0[js][None], axis=-1)
                d1 = np.linalg.norm(out1[js][:, None] - out1[js][None], axis=-1)
                if not np.abs(d0 - d1).max() <= TOL:
                    fail("axis-mutual", "atoms sharing collinear anchor %d change mutual distances by %.3e"
                         % (a, np.abs(d0 - d1).max()))
        classes.append("anchors:" + "+".join(sorted(set(kinds[a] for a in chosen))))
    else:
        a0, a1 = rpos[0], mpos[0]
        d_con = np.linalg.norm(tpos - a0, axis=1)
        for nm, out, a in (("map(ref)", out0, a0), ("map(moved)", out1, a1)):
            d = np.linalg.norm(out - a, axis=1)
            if not np.abs(d - s * d_con).max() <= TOL:
                fail("small-ref-distance", "%s: distance to the anchor is not s x construction distance "
                     "(err %.3e)" % (nm, np.abs(d - s * d_con).max()))
            dm = np.linalg.norm(out[:, None] - out[None], axis=-1)
            dc = np.linalg.norm(tpos[:, None] - tpos[None], axis=-1)
            if not np.abs(dm - s * dc).max() <= TOL:
                fail("small-ref-shape", "%s: mutual distances are not s x construction distances (err %.3e)"
                     % (nm, np.abs(dm - s * dc).max()))
        if n == 2:
            u_con = (rpos[1] - rpos[0]) / np.linalg.norm(rpos[1] - rpos[0])
            u_mov = (mpos[1] - mpos[0]) / np.linalg.norm(mpos[1] - mpos[0])
            for j in range(len(tpos)):
                ic = _invariants(tpos[j], a0, u_con)
                i0 = _invariants(out0[j], a0, u_con)
                i1 = _invariants(out1[j], a1, u_mov)
                for nm, xc_, x0, x1 in zip(("distance", "coordinate along the bond",
                                            "distance from the bond"), ic, i0, i1):
                    if not (abs(x0 - s * xc_) <= TOL and abs(x1 - s * xc_) <= TOL):
                        fail("two-atom-axis", "atom %d: %s is %.12g (ref) / %.12g (moved), expected "
                             "s x %.12g = %.12g" % (j, nm, x0, x1, xc_, s * xc_))
            # "up to a ROTATION about that axis": a mirror image keeps all of the above; the signed volume spanned by the
            # bond direction and two mapped atoms (seen from the bond) does not
            if len(tpos) >= 2:
                def signed(pos, a, u):
                    v = pos - a
                    return np.array([[float(np.cross(v[i], v[j]) @ u) for j in range(len(v))] for i in range(len(v))])
                sc = signed(tpos, a0, u_con) * s * s
                scale = max(1.0, float(np.abs(sc).max()))
                for nm, out, a, u in (("map(ref)", out0, a0, u_con), ("map(moved)", out1, a1, u_mov)):
                    err = float(np.abs(signed(out, a, u) - sc).max())
                    if not err <= 10 * TOL * scale:
                        fail("two-atom-handedness", "%s is not a rotation of the construction arrangement about the bond "
                             "(signed volumes differ by %.3e: a mirror image)" % (nm, err))
    ang = gen.rotation_angle(R)
    nt = ang > 0.1 and bool(np.any(t != 0))
    if n == 2:
        classes = list(classes) + ["two-atom:" + ("bonded" if case["ref"]["edges"] else "unbonded")]
    return {"nontrivial": nt, "classes": classes}


SUBCHECKS = [
    Sub("motion", check, strategy=lambda tier: case_strategy(),
        quick=4000, thorough=200000,
        min_share={"size:1": 0.08, "size:2": 0.08, "R:general": 0.3, "geom:near-collinear": 0.03}),
]
