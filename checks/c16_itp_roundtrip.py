"""C16  ItpFile read-write-read loses no section, line or comment."""
import os

import numpy as np
from hypothesis import strategies as st

from vlib import env, gen, indep  # noqa: F401
from vlib.build import lib
from vlib.report import PropertyViolation
from vlib.runner import Sub

from gaddlemaps.parsers import ItpFile, read_topology

PROPERTY = "C16"
LEVEL = "exploration"
RULE = ("(shipped) the 16 shipped .itp files; (generated) topology texts: optional header (comments, #include, "
        "#define, blanks), 1..8 sections in any order from realistic names and random identifiers, section names "
        "repeated with probability 1/2, content lines valid for the typed sections (moleculetype, atoms, bonds, "
        "constraints, pairs) and free tokens elsewhere, each with no / one / empty / blank-only / multiple trailing "
        "comments (comment text printable ASCII, may start with '#', may contain bracketed words or non-ASCII characters), comment-only, blank and preprocessor lines, "
        "tabs, last line with or without newline; read from a path or an open file, written to a fresh path, over the "
        "file it was read from, or over a longer existing file; LF or CRLF line ends. Non-trivial = a repeated section name or a content line with an "
        "empty or multiple trailing comment. Distinct = sha1 of the text.")
ASSUMPTIONS = [
    "ASCII files; preprocessor lines start in column 0, or are indented inside sections whose lines the library does "
    "not type (everything but moleculetype/atoms/bonds/constraints/pairs); section header lines carry no trailing comment",
    "section names that are substrings of 'moleculetype' (an unrelated quirk of the line typing) and the name "
    "'header' (the library's key for the text before the first section) are not generated",
    "blank lines and empty comment markers carry no information; comments are compared modulo blanks around ';'",
]

REAL = ["moleculetype", "atoms", "bonds", "pairs", "angles", "dihedrals", "constraints", "exclusions",
        "settles", "position_restraints", "defaults", "atomtypes", "system", "molecules", "virtual_sites2"]
IDENT = st.text(st.sampled_from("abcdefghijklmnopqrstuvwxyz_0123456789"), min_size=2, max_size=12).filter(
    lambda s: s not in "moleculetype" and s != "header")
COMMENT_TEXT = st.one_of(
    st.text(st.characters(min_codepoint=32, max_codepoint=126, blacklist_characters=";"),
            min_size=1, max_size=20).filter(lambda s: s.strip() != ""),
    st.sampled_from(["b0 [nm]  kb [kJ mol-1 nm-2]", "[ bonds ]", "[dihedrals]", "see ref. [12]", "charge in [e]",
                     "\u00c5ngstr\u00f6m units", "\u03b1-carbon", "25 \u00b0C", "[ atoms ] \u2013 kept",
                     "page\x0cbreak 1 2 1", "sep\u2028tail 3 4 1", "vt\x0bx", "fs\x1cx gs\x1dx rs\x1ex", "nel\x85x", "ps\u2029x",
                     "; doubled semicolon", ";;; beads", ";", " ; x", '#include "x.itp"', "#ifdef FOO", "#endif", "#", "drawn as C-C\\", "\\", "100% \"quoted\" 'text'", "%d %s {0}"]))
WORD = st.text(st.characters(min_codepoint=33, max_codepoint=126, blacklist_characters=";#[]"),
               min_size=1, max_size=8)


@st.composite
def content_tokens(draw, sec, state):
    if sec == "moleculetype":
        return [draw(st.sampled_from(["MOL", "BMIM", "Prot_A", "x-1"])), str(draw(st.integers(1, 5)))]
    if sec == "atoms":
        state["natoms"] += 1
        k = state["natoms"]
        toks = [str(k), draw(st.sampled_from(["CT", "opls_135", "P4"])), str(draw(st.integers(1, 9))),
                draw(st.sampled_from(["MOL", "ALA", "W"])), "%s%d" % (draw(st.sampled_from(["C", "H", "N"])), k),
                str(k)]
        extra = draw(st.integers(0, 3))
        toks += ["%.3f" % draw(st.floats(-1, 1)), "%.2f" % draw(st.floats(1, 40)), "extra"][:extra]
        return toks
    if sec in ("bonds", "constraints", "pairs"):
        n = max(state["natoms"], 1)
        toks = [str(draw(st.integers(1, n))), str(draw(st.integers(1, n)))]
        nf = draw(st.integers(0, 4))
        toks += ["1", "0.1530", "224262.4", "abc"][:nf]
        return toks
    return draw(st.lists(WORD, min_size=1, max_size=6))


@st.composite
def section_lines(draw, sec, state, stats):
    lines = []
    for _ in range(draw(st.integers(0, 7))):
        kind = draw(st.sampled_from(["content", "content", "content", "content+c", "content+c", "content+empty",
                                     "content+blank", "content+multi", "comment", "blank", "directive", "marker",
                                     "indent-comment"]))
        if sec in ("atoms", "bonds", "constraints", "pairs") and state["natoms"] == 0 and sec != "atoms" \
                and kind.startswith("content"):
            kind = "comment"
        sep = draw(st.sampled_from([" ", "  ", "\t", "   "]))
        lead = draw(st.sampled_from(["", "", "  ", "\t"]))
        if sec not in ("moleculetype", "atoms", "bonds", "constraints", "pairs") and draw(st.integers(0, 24)) == 0:
            # a very long line: an exclusion list with well over a thousand indices, or a very long trailing comment
            nlong = draw(st.sampled_from([900, 1400, 2500]))
            if draw(st.booleans()):
                lines.append(" ".join(str(i) for i in range(1, nlong)))
            else:
                lines.append("1 2 3 ; " + "long comment " * (nlong // 2))
            stats.add("long-line")
            continue
        if kind.startswith("content"):
            body = lead + sep.join(draw(content_tokens(sec, state)))
            if kind == "content+c":
                body += draw(st.sampled_from([" ;", ";", " ; ", "\t;"])) + draw(COMMENT_TEXT)
                stats.add("comment")
                if body.split(";", 1)[1].strip().startswith("#"):
                    stats.add("hash-comment")
            elif kind == "content+empty":
                body += draw(st.sampled_from([" ;", ";"]))
                stats.add("empty-comment")
            elif kind == "content+blank":
                body += " ;" + draw(st.sampled_from([" ", "  ", "\t"]))
                stats.add("empty-comment")
            elif kind == "content+multi":
                body += " ; " + " ; ".join(draw(st.lists(COMMENT_TEXT, min_size=2, max_size=3)))
                stats.add("multi-comment")
            lines.append(body)
        elif kind == "comment":
            lines.append(";" + draw(COMMENT_TEXT))
        elif kind == "indent-comment":
            lines.append("   ; " + draw(COMMENT_TEXT))
        elif kind == "blank":
            lines.append(draw(st.sampled_from(["", " ", "\t"])))
        elif kind == "marker":
            lines.append(";")
        else:
            d = draw(st.sampled_from(["#ifdef FLEXIBLE", "#endif", "#else", '#include "x.itp"',
                                      "#define K 1000", "#ifndef HEAVY_H"]))
            if sec not in ("moleculetype", "atoms", "bonds", "constraints", "pairs") and draw(st.integers(0, 2)) == 0:
                d = draw(st.sampled_from(["  ", "\t", "    "])) + d        # indented directive (untyped sections only)
                stats.add("indented-directive")
            lines.append(d)
    return lines


@st.composite
def text_case(draw):
    stats = set()
    out = []
    if draw(st.booleans()):
        for _ in range(draw(st.integers(1, 4))):
            out.append(draw(st.sampled_from(["; header comment", "", '#include "ff.itp"', "#define X", ";", "; ;"])))
    molecule = draw(st.booleans())
    names = []
    if molecule:
        names = ["moleculetype", "atoms"]
    nsec = draw(st.integers(1, 8))
    pool = REAL[2:] if molecule else REAL
    while len(names) < nsec + (2 if molecule else 0):
        if names and draw(st.booleans()) and draw(st.booleans()):
            cand = draw(st.sampled_from(names))                    # repeat a section name
            if cand in ("moleculetype", "atoms"):
                continue
            names.append(cand)
            stats.add("repeat")
        elif draw(st.integers(0, 3)) == 0:
            names.append(draw(IDENT))
        else:
            names.append(draw(st.sampled_from(pool)))
            if names.count(names[-1]) > 1:
                stats.add("repeat")
    if not molecule:
        names = list(draw(st.permutations(names)))
    state = {"natoms": 0}
    mol_named = False
    for sec in names:
        out.append(draw(st.sampled_from(["[ %s ]", "[%s]", "[  %s  ]", " [ %s ]"])) % sec)
        lines = draw(section_lines(sec, state, stats))
        if sec == "moleculetype" and not any(ln.split(";")[0].strip() for ln in lines if not ln.startswith("#")):
            lines.append("MOL 3")
        if sec == "atoms" and molecule and state["natoms"] == 0:
            state["natoms"] = 1
            lines.append("1 CT 1 MOL C1 1 0.0 12.0")
        out += lines
    text = "\n".join(out)
    if draw(st.booleans()) or not out[-1].strip():
        text += "\n"
    return {"text": text, "molecule": molecule, "stats": sorted(stats), "mode": draw(st.sampled_from(MODES)),
            "crlf": draw(st.integers(0, 5)) == 0}


def structure(text):
    header, secs = indep.split_itp(text)
    return header, [(k, v) for k, v in secs.items()]


def describe_diff(a, b):
    (ha, sa), (hb, sb) = a, b
    if ha != hb:
        return "header entries differ: %r vs %r" % (ha[:4], hb[:4])
    na, nb = [k for k, _ in sa], [k for k, _ in sb]
    if na != nb:
        return "section names %r became %r" % (na, nb)
    for (k, ea), (_, eb) in zip(sa, sb):
        if ea != eb:
            for i in range(max(len(ea), len(eb))):
                x = ea[i] if i < len(ea) else None
                y = eb[i] if i < len(eb) else None
                if x != y:
                    return "section %r entry %d: %r became %r (%d -> %d entries)" % (k, i, x, y, len(ea), len(eb))
    return "equal"


MODES = ["separate", "separate", "inplace", "fileobj", "over-longer", "copy", "write-twice", "after-failed-write", "over-twin", "fileobj-enc"]


def roundtrip(text_path, is_molecule, label, mode="separate"):
    with open(text_path, encoding="utf-8") as f:
        original = f.read()
    s0 = structure(original)
    out1 = env.fresh_path(".itp")
    out2 = env.fresh_path(".itp")
    if mode == "fileobj":                       # "fitp : str or TextIOWrapper"
        itp = lib("read", ItpFile, open(text_path, encoding="utf-8"))
    elif mode == "fileobj-enc":
        # ... an opened file in the encoding the user's file happens to have (latin-1, cp1252, UTF-8 with a byte order
        # mark, UTF-16): the library sees the same text; what it writes is read back by name like any other output
        for enc in (["latin-1", "utf-8-sig", "utf-16"] if len(original) % 2 else ["cp1252", "utf-16", "utf-8-sig"]):
            try:
                raw = original.encode(enc)
                break
            except UnicodeEncodeError:
                continue
        other = env.fresh_path(".itp")
        with open(other, "wb") as f:
            f.write(raw)
        itp = lib("read", ItpFile, open(other, encoding=enc, newline=""))
    else:
        itp = lib("read", ItpFile, text_path)
    if mode == "inplace":                       # written back over the file it was read from
        keep = env.fresh_path(".itp")
        with open(keep, "w", encoding="utf-8") as f:
            f.write(original)
        out1, text_path = text_path, keep
    elif mode == "over-longer":                 # the output path already holds a longer file
        with open(out1, "w", encoding="utf-8") as f:
            f.write(original + "\n[ bonds ]\n" + "1 2 1 0.1 1000 ; left over\n" * 50)
    if mode == "copy":                          # the file is written from ItpFile.copy() (an equal but distinct object)
        itp = lib("copy", itp.copy)
    elif mode == "after-failed-write":          # error-then-continue: the first write cannot open its target
        try:
            with env.quiet():
                itp.write(os.path.join(os.path.dirname(out1), "no-such-directory", "x.itp"))
        except Exception:      # noqa: BLE001
            pass
    elif mode == "write-twice":                 # the same object written twice: both files carry everything
        lib("write", itp.write, env.fresh_path(".itp"))
    stamp = None
    if mode == "over-twin":
        # the output path holds a file of exactly the size of the one to be written, differing in one character, that
        # was read through the library before; the time stamps of the path are preserved across the rewrite
        # (cp -p, rsync -t, coarse file-system clocks)
        scratch = env.fresh_path(".itp")
        lib("write", itp.write, scratch)
        with open(scratch, "rb") as f:
            twin = bytearray(f.read())
        for i in range(len(twin) - 1, -1, -1):
            if chr(twin[i]).isalnum() and twin[i] < 128:
                twin[i] = ord("7") if twin[i] != ord("7") else ord("3")
                break
        with open(out1, "wb") as f:
            f.write(bytes(twin))
        try:
            with env.quiet():
                ItpFile(out1)
        except Exception:      # noqa: BLE001   (the altered twin need not be a valid file)
            pass
        stamp = os.stat(out1)
    lib("write", itp.write, out1)
    if stamp is not None:
        os.utime(out1, ns=(stamp.st_atime_ns, stamp.st_mtime_ns))
    del itp
    try:
        with open(out1, encoding="utf-8") as f:
            written = f.read()
    except UnicodeDecodeError as exc:
        raise PropertyViolation("roundtrip", "%s: the written file is not UTF-8 text (what the library reads by name): %s"
                                % (label, exc), cls="roundtrip:encoding")
    s1 = structure(written)
    if s0 != s1:
        d = describe_diff(s0, s1)
        kind = "other"
        if "section names" in d or "entries)" in d and s0[1] and [k for k, _ in s0[1]] == [k for k, _ in s1[1]]:
            kind = "content"
        raise PropertyViolation("roundtrip", "%s: %s" % (label, d), cls="roundtrip:" + classify(original, d))
    itp2 = lib("re-read", ItpFile, out1)
    lib("write-again", itp2.write, out2)
    del itp2
    with open(out2, encoding="utf-8") as f:
        s2 = structure(f.read())
    if s2 != s1:
        raise PropertyViolation("stable", "%s: second write differs: %s" % (label, describe_diff(s1, s2)))
    if is_molecule:
        t0 = lib("topology-original", read_topology, text_path)
        t1 = lib("topology-written", read_topology, out1)
        if t0[0] != t1[0] or list(map(tuple, t0[1])) != list(map(tuple, t1[1])) or \
                sorted(map(tuple, t0[2])) != sorted(map(tuple, t1[2])):
            raise PropertyViolation("topology", "%s: molecule name/atoms/bonds differ after the round trip "
                                    "(%d->%d atoms, %d->%d bonds)" % (label, len(t0[1]), len(t1[1]), len(t0[2]), len(t1[2])))
        # and the bonds are those of the text (independent of the library's first parse)
        exp = set()
        numbers = [int(e[1][0]) for e in dict(s0[1]).get("atoms", []) if e[0] == "content"]
        index = {nr: i for i, nr in enumerate(numbers)}
        for sec in ("bonds", "constraints", "pairs"):
            for e in dict(s0[1]).get(sec, []):
                if e[0] == "content":
                    exp.add((index[int(e[1][0])], index[int(e[1][1])]))
        if set(map(tuple, t1[2])) != exp:
            raise PropertyViolation("topology-bonds", "%s: %d bonds in the text, %d after the round trip"
                                    % (label, len(exp), len(set(map(tuple, t1[2])))))
    return s0


def classify(original, diff):
    _, secs = indep.split_itp(original)
    names = []
    import re
    for raw in original.split("\n"):
        m = re.match(r"^\[(.*)\]", raw.strip())
        if m:
            names.append(m.group(1).strip())
    if len(names) != len(set(names)) and ("entries)" in diff or "section names" in diff):
        return "repeated-section"
    if "became" in diff:
        return "line"
    return "other"


def check_text(case):
    if not case["text"].isascii():
        import locale
        if locale.getpreferredencoding(False).lower().replace("-", "") != "utf8":
            # the library writes in the locale's encoding: non-ASCII comments only under a UTF-8 locale
            case = dict(case, text=case["text"].encode("ascii", "replace").decode("ascii").replace("?", "x"))
    path = env.fresh_path(".itp")
    with open(path, "w", newline="\r\n" if case.get("crlf") else None, encoding="utf-8") as f:
        f.write(case["text"])
    mode = case.get("mode", "separate")
    s0 = roundtrip(path, case["molecule"], "generated file" + ("" if mode == "separate" else " (%s)" % mode), mode)
    stats = set(case["stats"])
    nt = bool(stats & {"repeat", "empty-comment", "multi-comment"})
    return {"nontrivial": nt, "classes": ["molecule" if case["molecule"] else "fragment", "mode:" + mode,
                                          "crlf" if case.get("crlf") else "lf",
                                          "ascii" if case["text"].isascii() else "non-ascii"] + sorted(stats),
            "sample": {"text": case["text"][:700], "stats": case["stats"]}}


def shipped_cases(tier, seed):
    names = sorted(f for f in os.listdir(env.DATA) if f.endswith(".itp"))
    return [{"file": nm, "mode": m} for nm in names for m in ("separate", "inplace", "fileobj", "over-longer", "copy", "write-twice", "after-failed-write")], True


def check_shipped(case):
    src = os.path.join(env.DATA, case["file"])
    path = env.fresh_path(".itp")
    with open(src) as f, open(path, "w") as g:
        g.write(f.read())
    s0 = roundtrip(path, True, case["file"], case.get("mode", "separate"))
    names = []
    import re
    with open(src) as f:
        for raw in f:
            m = re.match(r"^\[(.*)\]", raw.strip())
            if m:
                names.append(m.group(1).strip())
    rep = len(names) != len(set(names))
    return {"nontrivial": rep, "classes": ["repeat" if rep else "no-repeat"],
            "sample": {"file": case["file"], "sections": names}}


# ------------------------------------------------------------------ coverage-guided campaign (thorough tier)
def atheris_cases(tier, seed):
    return [{"runs": 15000, "seed": int(seed) * 16 + k, "corpus": ["empty", "shipped"][k % 2]} for k in range(16)], False


def check_atheris(case):
    import json
    import shutil
    import subprocess
    import sys
    try:
        sys.path.append(os.path.join(env.VERIF_ROOT, ".deps"))
        import atheris  # noqa: F401
    except Exception as exc:      # noqa: BLE001
        return {"nontrivial": False, "classes": ["atheris-unavailable"],
                "sample": {"skipped": "atheris cannot be imported: %r" % (exc,)}}
    work = env.fresh_dir()
    corpus = os.path.join(work, "corpus")
    os.makedirs(corpus)
    if case["corpus"] == "shipped":
        # libFuzzer mutates raw bytes that Hypothesis decodes; the shipped files are not such
        # byte strings, so the 'shipped' variant seeds the corpus with short byte patterns instead
        for k, blob in enumerate([b"\x00" * 64, b"\x01\x02\x03\x04" * 32, bytes(range(256))]):
            with open(os.path.join(corpus, "seed%d" % k), "wb") as f:
                f.write(blob)
    out = os.path.join(work, "out.json")
    cmd = [sys.executable, os.path.join(env.VERIF_ROOT, "drivers", "fuzz_itp.py"), env.VERIF_ROOT, out,
           "-runs=%d" % case["runs"], "-seed=%d" % (case["seed"] % (2 ** 31) + 1), "-max_len=4096", corpus]
    envv = dict(os.environ, VERIF_REPO=env.REPO, PYTHONHASHSEED="0")
    proc = subprocess.run(cmd, capture_output=True, text=True, env=envv, cwd=work, timeout=3600)
    if not os.path.exists(out):
        from vlib.report import HarnessError
        raise HarnessError("atheris driver produced no statistics (rc %d): %s" % (proc.returncode, proc.stderr[-500:]))
    with open(out) as f:
        res = json.load(f)
    shutil.rmtree(work, ignore_errors=True)
    if res.get("violation"):
        # judged again by the plain oracle, so that the replay file is an ordinary C16 case
        check_text(res["case"])
        raise PropertyViolation(res["clause"], "found by the coverage-guided campaign: " + res["message"], cls=res["cls"])
    return {"units": (max(1, res["executions"]), res["nontrivial"]),
            "classes": ["atheris-campaign", "corpus:" + case["corpus"]],
            "sample": {"libfuzzer_runs": case["runs"], "valid_executions": res["executions"],
                       "nontrivial": res["nontrivial"], "classes": res["stats"], "corpus": case["corpus"]}}


def big_cases(tier, seed):
    """Topologies of more than a mebibyte (three times the largest shipped one), read by name and as an opened file."""
    return [{"mode": m, "nbonds": 45000 + 1000 * (int(seed) % 7), "seed": int(seed)}
            for m in (["fileobj", "separate", "fileobj-enc"] if tier == "thorough" else ["fileobj"])], False


def check_big(case):
    n = case["nbonds"]
    lines = ["; big topology", "[ moleculetype ]", "BIG 3", "", "[ atoms ]"]
    lines += ["%d CT 1 BIG C%d %d 0.0 12.011 ; atom %d" % (k, k % 1000, k, k) for k in range(1, 2001)]
    lines += ["", "[ bonds ]"]
    lines += ["%d %d 1 0.153 1000.0" % (1 + k % 2000, 1 + (k * 7 + 1) % 2000) + (" ; b%d" % k if k % 50 == 0 else "")
              for k in range(n)]
    lines += ["", "[ pairs ]"] + ["%d %d 1" % (1 + k % 2000, 1 + (k + 3) % 2000) for k in range(500)]
    text = "\n".join(lines) + "\n"
    path = env.fresh_path(".itp")
    with open(path, "w", encoding="utf-8") as f:
        f.write(text)
    roundtrip(path, False, "topology of %d bytes (%s)" % (len(text), case["mode"]), case["mode"])
    return {"nontrivial": len(text) > 2 ** 20, "classes": ["size:>1MiB" if len(text) > 2 ** 20 else "size:<=1MiB",
                                                            "mode:" + case["mode"]],
            "sample": {"bytes": len(text), "mode": case["mode"]}}


SUBCHECKS = [
    Sub("big", check_big, enumerate=big_cases, shards=3, note="a topology of more than 1 MiB, also through an opened file"),
    Sub("shipped", check_shipped, enumerate=shipped_cases, note="all shipped topologies"),
    Sub("generated", check_text, strategy=lambda tier: text_case(), quick=3000, thorough=160000,
        min_share={"repeat": 0.2, "empty-comment": 0.2, "multi-comment": 0.15}),
    Sub("atheris", check_atheris, enumerate=atheris_cases, tiers=("thorough",),
        note="libFuzzer bytes -> Hypothesis strategy (fuzz_one_input) -> same oracle; 16 campaigns of 15000 runs"),
]
