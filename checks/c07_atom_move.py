"""C07  Single-atom move restores every bond length on acyclic molecules."""
import numpy as np
from hypothesis import strategies as st

from vlib import env, gen, indep  # noqa: F401
from vlib.build import lib
from vlib.report import PropertyViolation
from vlib.runner import Sub

import gaddlemaps

PROPERTY = "C07"
LEVEL = "exploration"
RULE = ("(trees) every labelled tree with 1..6 (quick) / 1..7 (thorough) vertices from Pruefer sequences x every moved "
        "atom, generic coordinates and displacement from numpy default_rng([VERIF_SEED, index]), bond table measured "
        "from the geometry and a second table of random lengths; (random) Hypothesis trees / chains / stars / cyclic "
        "graphs and forests (moved atom possibly without any bond) of 1..60 atoms with arbitrary displacement, coordinate "
        "array in several memory layouts, the bond-table dict fresh or re-used after an in-place update; (displ) find_atom_random_displ for atoms with 1, 2, >=3 "
        "neighbours. Non-trivial = the re-projection propagates at least two bonds away from the moved atom "
        "(displ: the molecule is not axis-aligned). Distinct = sha1 of the case JSON.")
ASSUMPTIONS = [
    "coordinates are generic: bonded atoms never coincide after the displacement (probability zero for the generated floats)",
    "the bond table lists every bond in both directions with one length (what Molecule.bonds_distance produces)",
]


def bond_table(n, edges, lengths, order=0):
    """order: how the dictionary came about - 0: one key per atom in ascending order (what Molecule.bonds_distance
    gives); 1: filled from the bond list as it comes (keys in order of first appearance in a bond, atoms without bonds
    last); 2: keys and neighbour lists in a pseudo-random order.  The content is the same mapping in all three."""
    pairs = {i: [] for i in range(n)}
    for (a, b), L in zip(edges, lengths):
        pairs[a].append((b, float(L)))
        pairs[b].append((a, float(L)))
    if not order:
        return pairs
    if order == 1:
        keys = []
        for a, b in list(edges)[::-1]:
            for x in (b, a):
                if x not in keys:
                    keys.append(x)
        keys += [i for i in range(n) if i not in keys]
        return {k: list(pairs[k]) for k in keys}
    rng = np.random.default_rng(order * 7919 + n)
    return {int(k): [pairs[int(k)][j] for j in rng.permutation(len(pairs[int(k)]))] for k in rng.permutation(n)}


def table_order(case):
    v = int(case.get("seed", case.get("n", 0) * 31 + len(case.get("edges", [])))) % 4
    return [0, 1, 0, 2 + int(case.get("seed", 0)) % 1000][v]


def depth_from(n, edges, root):
    nb = indep.neighbours(n, [tuple(e) for e in edges])
    depth = {root: 0}
    frontier = [root]
    while frontier:
        nxt = []
        for u in frontier:
            for v in nb[u]:
                if v not in depth:
                    depth[v] = depth[u] + 1
                    nxt.append(v)
        frontier = nxt
    return depth


def make_case(n, edges, atom, rng, table):
    pos = gen.walk_geometry(n, edges, rng, lo=0.1, hi=0.5)
    if rng.random() < 0.2:
        pos = pos + np.round(rng.uniform(-9000, 9000, 3), 3)          # box-scale offset
    if table == "measured":
        lengths = [float(np.linalg.norm(pos[a] - pos[b])) for a, b in edges]
    else:
        lengths = rng.uniform(0.05, 0.8, len(edges)).tolist()
    scale = [0.01, 0.3, 3.0][int(rng.integers(0, 3))]
    displ = (gen.unit(rng) * rng.uniform(0.1, 1.0) * scale).tolist()
    return {"n": n, "edges": [list(e) for e in edges], "atom": int(atom), "pos": pos.tolist(),
            "lengths": lengths, "displ": displ, "table": table}


def enumerate_trees(tier, seed):
    nmax = 7 if tier == "thorough" else 6

    def it():
        idx = 0
        for n in range(1, nmax + 1):
            for edges in (gen.prufer_trees(n) if n > 1 else [[]]):
                for atom in range(n):
                    for table in ("measured", "random"):
                        yield (lambda n=n, edges=edges, atom=atom, table=table, idx=idx:
                               make_case(n, edges, atom, np.random.default_rng([int(seed), idx]), table))
                        idx += 1
    return it(), True


@st.composite
def random_case(draw):
    n = draw(st.integers(1, 60))
    kind = draw(st.sampled_from(["tree", "tree", "chain", "star", "cyclic", "forest"]))
    edges = draw(gen.graph_edges(n, kind)) if n > 1 else []
    atom = draw(st.integers(0, n - 1))
    rng = np.random.default_rng(draw(gen.SEEDS))
    case = make_case(n, edges, atom, rng, draw(st.sampled_from(["measured", "random"])))
    case["graph"] = kind
    case["mem"] = draw(st.sampled_from(gen.ARRAY_LAYOUTS))
    case["reuse"] = draw(st.sampled_from([None, None, "rescaled", "other-tree", "after-error", "after-error"]))
    case["kwargs"] = draw(st.booleans())
    return case


def check_move(case):
    n, edges, atom = case["n"], [tuple(e) for e in case["edges"]], case["atom"]
    pos = gen.as_layout(case["pos"], case.get("mem", "C"))
    before = pos.copy()
    displ = np.array(case["displ"], float)
    displ_before = displ.copy()
    tab = bond_table(n, edges, case["lengths"], table_order(case))
    if case.get("reuse") == "after-error" and n > 1:
        # error-then-continue: a call that raises part-way (a displacement with two components, a bond table that lacks
        # an atom it reaches), caught by the caller, then the valid call on a molecule of the same size
        other_atom = (atom + 1 + int(abs(displ[0]) * 1e6)) % n
        for bad in ("short-displacement", "incomplete-table"):
            try:
                with env.quiet():
                    if bad == "short-displacement":
                        gaddlemaps.move_mol_atom(pos.copy(), tab, other_atom, displ[:2].copy())
                    else:
                        holes = {i: lst for i, lst in tab.items() if i % 2 == 0 or i == other_atom}
                        gaddlemaps.move_mol_atom(pos.copy(), holes, other_atom, displ.copy())
            except Exception:      # noqa: BLE001
                pass
    elif case.get("reuse") and n > 1:
        # the caller keeps ONE bond-table dict and updates it in place between calls (same object, new contents)
        real = tab
        if case["reuse"] == "rescaled":
            tab = {i: [(j, L * 1.37) for j, L in lst] for i, lst in real.items()}
        else:
            chain = [(k, k + 1) for k in range(n - 1)]
            tab = bond_table(n, chain, [0.21 + 0.01 * k for k in range(n - 1)])
        lib("move-prior", gaddlemaps.move_mol_atom, pos.copy(), tab, atom, displ.copy())
        if case["reuse"] == "rescaled":
            for i in tab:
                tab[i][:] = real[i]
        else:
            tab.clear()
            tab.update(real)
    if case.get("kwargs"):
        out = lib("move", gaddlemaps.move_mol_atom, atoms_pos=pos, bonds_info=tab, atom_index=atom, displ=displ)
    else:
        out = lib("move", gaddlemaps.move_mol_atom, pos, tab, atom, displ)
    if out is pos:
        raise PropertyViolation("input-unchanged", "move_mol_atom returned the caller's own array object")
    if n > 1 and (atom + n) % 4 == 0:
        # the atom left to its default (the library picks one at random) and the displacement given: SOME atom is moved
        # by exactly that vector
        st_ = np.random.get_state()
        rnd = np.asarray(lib("move-any-atom", lambda: gaddlemaps.move_mol_atom(pos, tab, displ=displ)), float)
        np.random.set_state(st_)
        gap = np.abs((rnd - before) - displ[None, :]).max(axis=1)
        if not gap.min() <= 1e-12 * max(1.0, np.abs(before).max(), np.abs(displ).max()):
            raise PropertyViolation("exact-displacement", "move_mol_atom(pos, bonds, displ=d) with the atom left to its "
                                    "default: no atom is displaced by d (closest misses it by %.3e)" % gap.min(),
                                    cls="exact-displacement:default-atom")
    out = np.asarray(out, float)
    if not np.array_equal(pos, before) or not np.array_equal(displ, displ_before):
        raise PropertyViolation("input-unchanged", "move_mol_atom modified its input array or displacement")
    if out.shape != pos.shape or not np.all(np.isfinite(out)):
        raise PropertyViolation("finite", "output not finite / wrong shape")
    err = float(np.abs(out[atom] - (before[atom] + displ)).max())
    if not err <= 1e-12 * max(1.0, np.abs(before[atom]).max(), np.abs(displ).max()):
        raise PropertyViolation("exact-displacement", "moved atom displaced by %r instead of %r"
                                % ((out[atom] - before[atom]).tolist(), displ.tolist()))
    exact = []
    for (a, b), L in zip(edges, case["lengths"]):
        d = float(np.linalg.norm(out[a] - out[b]))
        exact.append(abs(d - L) <= 1e-9 * max(L, 1e-3))
    is_tree = len(edges) == n - 1 and indep.connected(n, edges)
    if is_tree:
        bad = [k for k, ok in enumerate(exact) if not ok]
        if bad:
            a, b = edges[bad[0]]
            raise PropertyViolation("bond-lengths", "tree with %d atoms, moved atom %d: bond %d-%d has length %.12g, "
                                    "table says %.12g (%d of %d bonds wrong, table %s)"
                                    % (n, atom, a, b, np.linalg.norm(out[a] - out[b]), case["lengths"][bad[0]],
                                       len(bad), len(edges), case["table"]))
    else:
        # the bonds that ARE exact must connect every atom reachable from the moved atom to it
        good_edges = [e for e, ok in zip(edges, exact) if ok]
        comp_all = indep.components(n, edges)
        comp_good = indep.components(n, good_edges)
        for v in range(n):
            if comp_all[v] == comp_all[atom] and comp_good[v] != comp_good[atom]:
                raise PropertyViolation("traversal-tree", "cyclic graph: atom %d is not connected to the moved atom %d "
                                        "through bonds of exact length" % (v, atom))
    # atoms not connected to the moved atom stay where they were
    comp = indep.components(n, edges)
    for v in range(n):
        if comp[v] != comp[atom] and not np.array_equal(out[v], before[v]):
            raise PropertyViolation("unconnected-untouched", "atom %d is not bonded to the moved part but moved" % v)
    depth = depth_from(n, edges, atom)
    return {"nontrivial": max(depth.values()) >= 2,
            "classes": ["table:" + case["table"], "tree" if is_tree else ("cyclic" if len(edges) >= n else "forest"),
                        "depth:%s" % min(max(depth.values()), 4), "mem:" + case.get("mem", "C"),
                        "table-object:" + (case.get("reuse") or "fresh")]}


# ------------------------------------------------------------------ random displacement
@st.composite
def displ_case(draw):
    n = draw(st.integers(2, 12))
    kind = draw(st.sampled_from(["tree", "star", "chain", "cyclic"]))
    edges = draw(gen.graph_edges(n, kind))
    rng = np.random.default_rng(draw(gen.SEEDS))
    scale = draw(st.sampled_from([1.0, 1.0, 1.0, 10.0, 1e-2, 1e-4, 1e-6]))       # the unit of length is the caller's choice
    pos = gen.walk_geometry(n, edges, rng, lo=0.1, hi=0.5) * scale
    if draw(st.integers(0, 3)) == 0:
        # far from the origin compared with the bond lengths (up to 1e5 bond lengths away, e.g. 9000 nm for 0.1 nm bonds)
        pos = pos + np.round(rng.uniform(-9000, 9000, 3), 3) * scale
    lengths = [float(np.linalg.norm(pos[a] - pos[b])) for a, b in edges]
    if draw(st.booleans()):
        lengths = (rng.uniform(0.05, 0.8, len(edges)) * scale).tolist()       # a bond table that disagrees with the current geometry
    atom = draw(st.integers(0, n - 1))
    return {"n": n, "edges": edges, "pos": pos.tolist(), "lengths": lengths, "atom": atom,
            "sigma": draw(st.sampled_from([0.5, 0.1, 1.0, 2.5])), "seed": draw(gen.SEEDS)}


def check_displ(case):
    n, edges, atom = case["n"], [tuple(e) for e in case["edges"]], case["atom"]
    pos = np.array(case["pos"], float)
    tab = bond_table(n, edges, case["lengths"], table_order(case))
    nbrs = [b for b, _ in tab[atom]]
    if not nbrs:
        return {"nontrivial": False, "classes": ["neighbours:0"]}
    np.random.seed(case["seed"])
    before = pos.copy()
    if case["seed"] % 2:
        d = np.asarray(lib("random-displ", gaddlemaps.find_atom_random_displ, atoms_pos=pos, bonds_info=tab, atom_index=atom,
                           sigma_scale=case["sigma"]), float)
    else:
        d = np.asarray(lib("random-displ", gaddlemaps.find_atom_random_displ, pos, tab, atom,
                           sigma_scale=case["sigma"]), float)
    if not np.array_equal(pos, before):
        raise PropertyViolation("input-unchanged", "find_atom_random_displ modified its input")
    if d.shape != (3,) or not np.all(np.isfinite(d)):
        raise PropertyViolation("displ-finite", "displacement %r not finite" % (d,))
    nd = np.linalg.norm(d)
    if len(nbrs) == 1:
        refs = [pos[nbrs[0]] - pos[atom]]
        what = "the bond"
    elif len(nbrs) == 2:
        refs = [pos[nbrs[0]] - pos[nbrs[1]]]
        what = "the line through the two neighbours"
    else:
        refs = [pos[nbrs[0]] - pos[nbrs[1]], pos[nbrs[0]] - pos[nbrs[2]]]
        what = "the plane through the first three neighbours"
    if nd > 0:
        for r in refs:
            c = abs(float(d @ r)) / (nd * np.linalg.norm(r))
            if not c <= 1e-9:
                raise PropertyViolation("displ-perpendicular", "displacement not perpendicular to %s: |cos|=%.3e "
                                        "(atom with %d neighbours)" % (what, c, len(nbrs)),
                                        cls="displ-perpendicular:%d" % min(len(nbrs), 3))
    # the documented default of move_mol_atom draws the displacement the same way: the moved atom's shift obeys the same rule
    np.random.seed((case["seed"] + 1) % 2 ** 32)
    out = np.asarray(lib("move-random", gaddlemaps.move_mol_atom, pos, tab, atom), float)
    dm = out[atom] - pos[atom]
    ndm = np.linalg.norm(dm)
    if not np.all(np.isfinite(out)):
        raise PropertyViolation("displ-finite", "move_mol_atom without displacement gives non-finite coordinates")
    if ndm > 0:
        # (dm is recovered by subtracting two positions: its own rounding, eps x |position|, limits what can be asked)
        tol_c = 1e-9 + 16 * np.finfo(float).eps * float(np.abs(pos).max()) / ndm
        for r in refs:
            c = abs(float(dm @ r)) / (ndm * np.linalg.norm(r))
            if not c <= tol_c:
                raise PropertyViolation("displ-perpendicular", "move_mol_atom(displ=None): the drawn displacement is not "
                                        "perpendicular to %s: |cos|=%.3e (atom with %d neighbours)" % (what, c, len(nbrs)),
                                        cls="displ-perpendicular:%d" % min(len(nbrs), 3))
    # the same seed gives the same displacement (pure function of inputs and random stream)
    np.random.seed(case["seed"])
    d2 = np.asarray(gaddlemaps.find_atom_random_displ(pos, tab, atom, sigma_scale=case["sigma"]), float)
    if not np.array_equal(d, d2):
        raise PropertyViolation("displ-deterministic", "same seed, different displacement")
    span = float(np.abs(pos).max()) if len(pos) else 1.0
    return {"nontrivial": True, "classes": ["neighbours:%d" % min(len(nbrs), 3),
                                            "scale:%s" % ("unit" if span > 0.05 else "small")]}


SUBCHECKS = [
    Sub("trees", check_move, enumerate=enumerate_trees,
        note="all labelled trees 1..6 (quick) / 1..7 (thorough) vertices x every moved atom x two bond tables"),
    Sub("random", check_move, strategy=lambda tier: random_case(), quick=4000, thorough=200000,
        min_share={"cyclic": 0.1}),
    Sub("displ", check_displ, strategy=lambda tier: displ_case(), quick=4000, thorough=200000,
        min_share={"neighbours:1": 0.1, "neighbours:2": 0.1, "neighbours:3": 0.05}),
]
