"""C17  Rotation matrices are proper rotations; local frames are orthonormal."""
import math

import numpy as np
from hypothesis import strategies as st

from vlib import env, gen  # noqa: F401  (env first: fixes sys.path)
from vlib.build import lib
from vlib.report import PropertyViolation
from vlib.runner import Sub

import gaddlemaps

PROPERTY = "C17"
LEVEL = "exploration"
RULE = ("rotation: axis = direction (axis-aligned, integer or random unit vector) x norm "
        "10^u, u in [-6,6], or a whole-number axis given as an integer-dtype array / list / tuple with whole-number angles; angles in [-20,20] incl. multiples of pi/2; non-trivial = axis not "
        "parallel to a coordinate axis and sin(theta) != 0. frame: point triples at scale "
        "1e-3..1e3 in classes generic (sin>=1e-3), exactly collinear (x,y,z axes, diagonals, "
        "integer directions), coincident middle point and exactly collinear triples after a "
        "general rotation (collinear to rounding), handed over as list / tuple of vectors, one (3,3) array "
        "(C, Fortran, view of a larger array) or row views of one array; non-trivial = not axis aligned. Distinct = "
        "sha1 of the case JSON.")
ASSUMPTIONS = [
    "numpy linear algebra and the harness' 30-line oracle are trusted",
    "triples with an angle between 1e-14 and 1e-3 rad from collinear (ill-conditioned for any "
    "floating-point frame construction) are not generated",
]

TOL_R = 1e-12
TOL_F = 1e-9


# ------------------------------------------------------------------ rotations
@st.composite
def rotation_case(draw):
    kind = draw(st.sampled_from(["axis", "integer", "random", "random", "random", "whole"]))
    rng = np.random.default_rng(draw(gen.SEEDS))
    if kind == "whole":
        # whole-number axis as a user writes it: [0, 0, 1], (1, 1, 0), np.array([2, -1, 3]) - integer dtype
        while True:
            d = rng.integers(-5, 6, size=3)
            if d.any():
                break
        if draw(st.booleans()):
            d = np.zeros(3, int)
            d[draw(st.integers(0, 2))] = draw(st.sampled_from([-1, 1, 2]))
        ang = (lambda: draw(st.one_of(st.integers(-20, 20), st.floats(-20, 20, allow_nan=False))))
        arepr = draw(st.sampled_from(["int-array", "int-list", "int-tuple", "float-array", "int32-array", "int16-array",
                                      "int8-array"]))
        # long whole-number axes (the norm range of the statement reaches 1e6) in the narrowest dtype that holds them
        top = {"int8-array": 100, "int16-array": 30000, "int32-array": 10 ** 6}.get(arepr, 10 ** 6)
        mag = draw(st.sampled_from([1, 1, 10, 1000, 10 ** 5]))
        d = np.clip(d * mag, -top, top)
        return {"kind": kind, "axis": [int(v) for v in d], "theta": ang(), "theta2": ang(),
                "lam": draw(st.sampled_from([2, 3, 10, 0.5])), "axis_repr": arepr}
    if kind == "axis":
        d = np.zeros(3)
        d[draw(st.integers(0, 2))] = draw(st.sampled_from([-1.0, 1.0]))
    elif kind == "integer":
        while True:
            d = rng.integers(-5, 6, size=3).astype(float)
            if d.any():
                break
        d = d / np.linalg.norm(d)
    else:
        d = gen.unit(rng)
    u = draw(st.floats(-6, 6, allow_nan=False))
    akind = draw(st.sampled_from(["float", "float", "float", "quarter"]))

    def angle():
        if akind == "quarter":
            return draw(st.integers(-12, 12)) * (math.pi / 2)
        return draw(st.floats(-20, 20, allow_nan=False, allow_infinity=False))
    return {"kind": kind, "axis": (d * 10.0 ** u).tolist(), "theta": angle(),
            "theta2": angle(), "lam": 10.0 ** draw(st.floats(-3, 3, allow_nan=False)),
            "reuse_axis": draw(st.integers(0, 3)) == 0}


def check_rotation(case):
    axis = np.array(case["axis"], dtype=float)
    th, th2, lam = case["theta"], case["theta2"], case["lam"]
    arepr = case.get("axis_repr", "float-array")
    if arepr in ("int-array", "int-list"):
        axis = np.array(case["axis"], dtype=np.int64)
    elif arepr in ("int32-array", "int16-array", "int8-array"):
        axis = np.array(case["axis"], dtype={"int32-array": np.int32, "int16-array": np.int16, "int8-array": np.int8}[arepr])
    if case.get("reuse_axis") and axis.dtype == np.float64:
        # one axis buffer, overwritten in place between two calls
        real = axis.copy()
        axis[:] = real[[1, 2, 0]] * np.array([1.0, -2.0, 0.5]) + np.array([0.25, 0.0, -0.75]) * np.linalg.norm(real)
        lib("rotation-prior", gaddlemaps.rotation_matrix, axis, th)
        axis[:] = real
    axis_before = axis.copy()
    if case.get("reuse_axis"):
        first = lib("rotation-first", gaddlemaps.rotation_matrix, axis, th)
        if isinstance(first, np.ndarray) and first.flags.writeable:
            first[...] = -3.5               # the returned matrix is the caller's to overwrite
    R = np.asarray(lib("rotation", gaddlemaps.rotation_matrix, axis, th), dtype=float)
    if R.shape != (3, 3) or not np.all(np.isfinite(R)):
        raise PropertyViolation("rotation-finite", "R is not a finite 3x3 matrix: %r" % (R,))
    if not np.array_equal(axis, axis_before):
        raise PropertyViolation("rotation-input", "axis argument modified")
    a = axis / np.linalg.norm(axis)

    def need(cond_err, clause, what):
        if not cond_err <= TOL_R:
            raise PropertyViolation(clause, "%s: error %.3e > %.0e (axis=%r theta=%r)"
                                    % (what, cond_err, TOL_R, case["axis"], th))
    need(np.abs(R @ R.T - np.eye(3)).max(), "rotation-orthogonal", "R R^T != I")
    need(abs(np.linalg.det(R) - 1.0), "rotation-det", "det R != 1")
    need(np.abs(R @ a - a).max(), "rotation-axis-fixed", "R a != a")
    need(abs(np.trace(R) - (1 + 2 * math.cos(th))), "rotation-trace", "tr R != 1+2cos")
    Rm = np.asarray(lib("rotation", gaddlemaps.rotation_matrix, axis, -th), dtype=float)
    need(np.abs(Rm - R.T).max(), "rotation-inverse", "R(-t) != R(t)^T")
    R2 = np.asarray(lib("rotation", gaddlemaps.rotation_matrix, axis, th2), dtype=float)
    R12 = np.asarray(lib("rotation", gaddlemaps.rotation_matrix, axis, th + th2), dtype=float)
    need(np.abs(R @ R2 - R12).max(), "rotation-additive", "R(a)R(b) != R(a+b)")
    Rl = np.asarray(lib("rotation", gaddlemaps.rotation_matrix, np.array(case["axis"], dtype=float) * lam, th), dtype=float)
    need(np.abs(Rl - R).max(), "rotation-scale-free", "R(lam*axis) != R(axis)")
    # list input is documented ("list or numpy.ndarray")
    as_list = list(case["axis"]) if arepr != "int-tuple" else tuple(case["axis"])
    Rlist = np.asarray(lib("rotation", gaddlemaps.rotation_matrix, as_list, th), dtype=float)
    need(np.abs(Rlist - R).max(), "rotation-list-input", "list axis gives another matrix")
    nt = case["kind"] != "axis" and abs(math.sin(th)) > 1e-6
    return {"nontrivial": nt, "classes": ["axis:" + case["kind"], "axis-repr:" + arepr]}


# ------------------------------------------------------------------ frames
FRAME_CLASSES = ["generic", "generic", "axis-x", "axis-y", "axis-z", "diagonal", "integer",
                 "coincident-middle", "rotated-collinear", "generic-integer"]


@st.composite
def frame_case(draw):
    cls = draw(st.sampled_from(FRAME_CLASSES))
    rng = np.random.default_rng(draw(gen.SEEDS))
    scale_exp = draw(st.integers(-10, 10))       # power of two keeps exactness
    scale = 2.0 ** scale_exp
    if cls == "generic":
        while True:
            p = rng.normal(size=(3, 3)) * scale + rng.normal(size=3) * scale
            if gen.triple_sine(p[0], p[1], p[2]) >= 1e-3 and np.linalg.norm(p[2] - p[0]) > 1e-3 * scale:
                break
    elif cls == "generic-integer":
        while True:
            p = rng.integers(-9, 10, size=(3, 3)).astype(float) * scale
            if gen.triple_sine(p[0], p[1], p[2]) >= 1e-3:
                break
    elif cls == "coincident-middle":
        p = rng.integers(-9, 10, size=(3, 3)).astype(float) * scale
        while not (p[2] - p[0]).any():
            p[2] = rng.integers(-9, 10, size=3) * scale
        p[1] = p[0]
    else:
        base = "integer" if cls == "rotated-collinear" else cls
        d = gen.line_direction(base, rng).astype(float)
        p0 = rng.integers(-8, 9, size=3).astype(float)
        k1, k2 = 0, 0
        while k2 == 0:
            k1, k2 = (int(v) for v in rng.integers(-6, 7, size=2))
        p = np.array([p0, p0 + k1 * d, p0 + k2 * d]) * scale
        if cls == "rotated-collinear":
            Rm = gen.random_rotation(rng)
            p = p @ Rm.T + rng.normal(size=3) * scale
    return {"cls": cls, "points": p.tolist(),
            "container": draw(st.sampled_from(["list", "list", "tuple", "array", "array-F", "array-view", "row-views"])),
            "scribble": draw(st.booleans())}


def check_frame(case):
    pts = [np.array(p, dtype=float) for p in case["points"]]
    # single precision points (a trajectory frame) when every coordinate is exactly representable in it: the frame is
    # then only single-precision exact
    f32 = all(np.array_equal(p.astype(np.float32).astype(float), p) for p in pts) and len(repr(case["points"])) % 3 == 0
    TOL_F = 2e-5 if f32 else globals()["TOL_F"]
    if f32:
        pts = [p.astype(np.float32) for p in pts]
    before = [p.copy() for p in pts]
    # the three points are handed over the way callers do: a list / tuple of vectors, one (3, 3) array (C or Fortran
    # ordered, or a view into a larger coordinate array), or a list of row views of one array
    cont = case.get("container", "list")
    backing = None
    if cont == "list":
        arg = pts
    elif cont == "tuple":
        arg = tuple(pts)
    elif cont == "array":
        arg = backing = np.array(pts)
    elif cont == "array-F":
        arg = backing = np.asfortranarray(np.array(pts))
    elif cont == "array-view":
        backing = np.vstack([np.full((2, 3), 7.5), np.array(pts), np.full((1, 3), -3.25)])
        arg = backing[2:5]
    else:
        backing = np.array(pts)
        arg = [backing[0], backing[1], backing[2]]
    backing_before = None if backing is None else backing.copy()
    if case.get("scribble"):
        # what a call returns belongs to the caller: a first result is overwritten in place, then the judged call is made
        try:
            (w1, w2, w3), worg = lib("frame-first", gaddlemaps.calcule_base, [p.copy() for p in pts])
            for w in (w1, w2, w3, worg):
                if isinstance(w, np.ndarray) and w.flags.writeable:
                    w[...] = 7.25
        except (TypeError, ValueError):
            pass
    res = lib("frame", gaddlemaps.calcule_base, arg)
    for p, b in zip(pts, before):
        if not np.array_equal(p, b):
            raise PropertyViolation("frame-input", "input points modified (passed as %s)" % cont, cls="frame-input:" + cont)
    if backing is not None and not np.array_equal(backing, backing_before):
        raise PropertyViolation("frame-input", "the coordinate array the points were passed in (%s) was modified: %r -> %r"
                                % (cont, backing_before.tolist(), backing.tolist()), cls="frame-input:" + cont)
    try:
        (v1, v2, v3), origin = res
        F = np.array([v1, v2, v3], dtype=float)
        origin = np.array(origin, dtype=float)
    except Exception:
        raise PropertyViolation("frame-shape", "unexpected return value %r" % (res,))
    info = "class=%s points=%r" % (case["cls"], case["points"])
    if F.shape != (3, 3) or not np.all(np.isfinite(F)):
        raise PropertyViolation("frame-finite", "frame not finite: %r  %s" % (F.tolist(), info),
                                cls="frame-finite:" + _bucket(case))
    err = np.abs(F @ F.T - np.eye(3)).max()
    if not err <= TOL_F:
        raise PropertyViolation("frame-orthonormal", "F F^T - I = %.3e  %s" % (err, info),
                                cls="frame-orthonormal:" + _bucket(case))
    if not abs(np.linalg.det(F) - 1.0) <= TOL_F:
        raise PropertyViolation("frame-right-handed", "det F = %r  %s" % (np.linalg.det(F), info))
    d20 = pts[2].astype(float) - pts[0].astype(float)
    d10 = pts[1].astype(float) - pts[0].astype(float)
    u = d20 / np.linalg.norm(d20)
    if not np.abs(F[0] - u).max() <= TOL_F:
        raise PropertyViolation("frame-first-vector", "first vector %r != unit(p2-p0) %r  %s"
                                % (F[0].tolist(), u.tolist(), info))
    for nm, d in (("p2-p0", d20), ("p1-p0", d10)):
        n = np.linalg.norm(d)
        if n and not abs(F[2] @ d) <= TOL_F * n:
            raise PropertyViolation("frame-normal", "third vector not normal to %s: %.3e  %s"
                                    % (nm, F[2] @ d / n, info))
    if not np.array_equal(origin, before[0].astype(float)):
        raise PropertyViolation("frame-origin", "origin %r != p0  %s" % (origin.tolist(), info))
    nt = case["cls"] not in ("axis-x", "axis-y", "axis-z")
    return {"nontrivial": nt, "classes": ["frame:" + case["cls"], "container:" + case.get("container", "list"),
                                         "dtype:" + ("float32" if f32 else "float64")]}


def _bucket(case):
    c = case["cls"]
    return "collinear" if c not in ("generic", "generic-integer") else "generic"


SUBCHECKS = [
    Sub("rotation", check_rotation, strategy=lambda tier: rotation_case(),
        quick=12000, thorough=600000),
    Sub("frame", check_frame, strategy=lambda tier: frame_case(),
        quick=16000, thorough=900000,
        min_share={"frame:diagonal": 0.03, "frame:axis-z": 0.03, "frame:rotated-collinear": 0.03}),
]
