"""C01  Exchange map reproduces the aligned target (anchor-and-scale law)."""
import numpy as np
from hypothesis import strategies as st

from vlib import env, gen  # noqa: F401
from vlib.build import build_molecule, lib, positions
from vlib.report import PropertyViolation
from vlib.runner import Sub

from checks import xmap_common as xc

PROPERTY = "C01"
LEVEL = "exploration"
RULE = ("reference 3..25 atoms (trees, chains, stars, cyclic graphs, forests with >=1 atom of degree>=2; "
        "relabelled at random) in geometry classes generic / all atoms exactly on an x,y,z axis, a diagonal "
        "or an integer direction / generic with one exactly collinear anchor triple; target 1..30 atoms near, "
        "far from, or on top of reference atoms; s in {1} u (0,2]. Non-trivial = >=2 anchors, >=2 target atoms "
        "and (s != 1 or a degenerate geometry class). Distinct = sha1 of the case JSON.")
ASSUMPTIONS = [
    "reference atoms at pairwise distinct positions (stated in the property)",
    "target atoms whose two nearest anchors are equidistant to 1e-9 relative are accepted with either anchor",
    "reference and target have the same number of residues (the map copies residue numbers one-to-one)",
]


@st.composite
def case_strategy(draw):
    case = draw(xc.ref_tgt_case(nres_max=3))
    case["prior_seed"] = draw(st.integers(0, 2 ** 31))
    case["disturb"] = draw(st.sampled_from([None, None, None, "tgt", "ref", "both"]))
    return case


def check(case):
    ref, tgt = xc.build_pair(case)
    s = case["s"]
    M = xc.make_map(ref, tgt, s)
    applied_to = ref
    if case.get("disturb"):
        # the construction objects are moved / rotated / re-assigned right after construction (p and a are the
        # positions AT construction); the map is then applied to the construction-time reference configuration
        xc.disturb_construction(ref, tgt, case.get("prior_seed", 0), case["disturb"])
        applied_to = build_molecule(case["ref"])
    prior = xc.prior_call(M, case, case.get("prior_seed", 0))
    early = case.get("prior_seed", 0) % 3
    if early:
        # the caller inspects - and edits - the dictionary of equivalences BEFORE applying the map
        xc.equivalences_of(M, edit="reverse" if early == 1 else "clear")
    rpos = np.array(case["ref"]["coords"], float)
    tpos = np.array(case["tgt"]["coords"], float)
    via_alignment = not case.get("disturb") and case.get("prior_seed", 0) % 5 == 4
    if via_alignment:
        # the same map reached through Alignment.init_exchange_map (the route of Manager and of the command line): built
        # once, then the end molecule is displaced in place and the map is asked for again with the same scale - the law
        # holds for the positions at the LAST construction
        from gaddlemaps import Alignment
        ali = lib("alignment", Alignment, ref, tgt)
        lib("init-map", ali.init_exchange_map, s)
        shift = np.round(np.random.default_rng(case.get("prior_seed", 0)).uniform(-0.4, 0.4, 3), 3)
        lib("move-end", ali.end.move, shift.copy())
        lib("init-map-again", ali.init_exchange_map, s)
        M = ali.exchange_map
        applied_to = ali.start
        tpos = tpos + shift
        case = dict(case, tgt=dict(case["tgt"], coords=tpos.tolist()))
    out = lib("map-apply", M, applied_to)
    got = positions(out)
    anchors, assign = xc.oracle_assignment(case)
    chosen = xc.check_equivalences(M, assign)
    if got.shape != tpos.shape:
        raise PropertyViolation("law", "result has shape %r, target %r" % (got.shape, tpos.shape))
    if not np.all(np.isfinite(got)):
        raise PropertyViolation("law-finite", "non-finite mapped coordinates (geometry class %s)"
                                % case["geom"], cls="law-finite:" + _b(case))
    ntie = 0
    for t, (a, ties) in enumerate(assign):
        if len(ties) > 1:
            ntie += 1
        a_used = chosen[t]
        exp = rpos[a_used] + s * (tpos[t] - rpos[a_used])
        tol = 1e-9 * max(1.0, float(np.linalg.norm(tpos[t] - rpos[a_used])))
        err = float(np.abs(got[t] - exp).max())
        if not err <= tol:
            raise PropertyViolation(
                "law", "target atom %d: got %r, expected a+s(p-a)=%r (anchor %d, s=%r, err %.3e, class %s)"
                % (t, got[t].tolist(), exp.tolist(), a_used, s, err, case["geom"]),
                cls="law:" + _b(case))
    classes = ["geom:" + case["geom"], "s=1" if s == 1.0 else "s!=1",
               "tgt>ref" if len(tpos) > len(rpos) else "tgt<=ref", "graph:" + case["ref"]["graph"]]
    if ntie:
        classes.append("tie")
    classes.append("after-other-call" if prior else "first-call")
    classes.append("equivalences-edited-before-use" if early else "equivalences-read-after-use")
    classes.append("route:alignment" if via_alignment else "route:ExchangeMap")
    classes.append("construction-objects:" + (case.get("disturb") or "untouched"))
    nt = len(anchors) >= 2 and len(tpos) >= 2 and (s != 1.0 or case["geom"] != "generic")
    return {"nontrivial": nt, "classes": classes}


def _b(case):
    return "generic" if case["geom"] == "generic" else "degenerate"


SUBCHECKS = [
    Sub("law", check, strategy=lambda tier: case_strategy(),
        quick=4000, thorough=200000,
        min_share={"geom:axis-z": 0.04, "geom:diagonal": 0.04, "geom:mixed": 0.04, "s!=1": 0.3, "after-other-call": 0.3}),
]
