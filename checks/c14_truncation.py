"""C14  Incomplete or truncated .gro output is never accepted as a valid system.

Fault enumeration.  For every complete file (generated with the library's
writer, or shipped) every fault is enumerated:
  (i)  writer crash states: the writer runs against a proxy for `open` inside
       gaddlemaps.parsers that logs every low-level write/seek; replaying the log
       on a byte buffer yields the file content after every operation AND after
       every partial write (byte granularity, in-order write-back);
  (ii) every byte-level prefix of the complete file.
"""
import builtins
import os

import numpy as np
from hypothesis import strategies as st

from vlib import env, gen  # noqa: F401
from vlib.build import lib
from vlib.report import HarnessError, PropertyViolation
from vlib.runner import Sub

import gaddlemaps.parsers as gparsers
from gaddlemaps.parsers import GroFile

from checks import c13_gro_roundtrip as c13

PROPERTY = "C14"
LEVEL = "fault_enumeration"
RULE = ("complete files: generated record lists (1..40 atoms quick, ..300 thorough; velocities on/off; atom count "
        "declared or back-filled; position formats; boxes) written by the library writer - for a third of them also the "
        "same file with CRLF line ends - and the 14 intact shipped "
        ".gro files. Faults, enumerated exhaustively per file: every state of the output after each low-level "
        "write/seek of the writer and after every partial write (crash states), and every byte-level prefix. One "
        "unit = one (file, fault) pair; non-trivial = the cut / crash falls inside the count line or the atom block. "
        "Distinct = distinct files (sha1) x distinct fault positions.")
ASSUMPTIONS = [
    "crash model: the process stops; bytes reach the file in the order of the writer's write/seek calls (no reordered "
    "write-back); appended text may be cut at any byte, the 10-byte in-place back-fill of the atom count is atomic",
    "an exception handled by the application that then closes the file normally (e.g. leaving a with-block) is not a crash state",
    "'raises an error' = any exception from opening and reading the partial file",
]


# ------------------------------------------------------------------ reading a candidate state
_ROUTE = [0]


def try_read(path):
    """Opens the file the way a user may: by path, as an opened file object, through open_coordinate_file (in turn)."""
    _ROUTE[0] += 1
    fh = None
    try:
        with env.quiet():
            if _ROUTE[0] % 3 == 1:
                fh = open(path)
                g = GroFile(fh)
            elif _ROUTE[0] % 3 == 2:
                from gaddlemaps.parsers import open_coordinate_file
                g = open_coordinate_file(path)
            else:
                g = GroFile(path)
            try:
                recs = g.readlines()
                if not recs:
                    # an object that opened without complaint but hands out nothing at first: ask it again from the start
                    g.seek_atom(0)
                    for _ in range(int(g.natoms)):
                        try:
                            recs.append(next(g))
                        except Exception:      # noqa: BLE001
                            break
                    if not recs:
                        return "raise", "no-records"
            finally:
                g.close()
        return "ok", [tuple(r) for r in recs]
    except BaseException as exc:   # noqa: BLE001
        if isinstance(exc, (KeyboardInterrupt, SystemExit, MemoryError)):
            raise
        return "raise", type(exc).__name__
    finally:
        if fh is not None:
            try:
                fh.close()
            except Exception:      # noqa: BLE001
                pass


def box_line_start(data):
    """Offset of the first byte of the box line of a complete file."""
    body = data[:-1] if data.endswith(b"\n") else data
    return body.rfind(b"\n") + 1


# The one listed finding of this property (known_findings.json): the format itself cannot tell a triclinic box line
# (nine numbers) from an atom record with velocities whose residue and atom names are numbers ("    01    " - the number
# and a left-aligned numeric name run together - then six or more numbers: nine tokens).  A partial file whose first
# line after the declared atoms is such a record is accepted.  The class is recognised from the file's bytes, counted,
# and reported once per run as KNOWN-FINDING; every other accepted partial file is a violation as before.
KNOWN_BOX_LOOKALIKE = "accepted-incomplete:record-reads-as-nine-number-box"


def _record_reads_as_box(content, natoms_read):
    lines = content.replace(b"\r\n", b"\n").split(b"\n")
    if len(lines) < 3 + natoms_read:
        return False
    toks = lines[2 + natoms_read].split()
    if len(toks) != 9 or len(lines[2 + natoms_read]) != len(lines[2]):
        return False
    try:
        [float(t) for t in toks]
    except ValueError:
        return False
    return True


def _bytes(path):
    try:
        with open(path, "rb") as f:
            return f.read()
    except FileNotFoundError:          # a writer that never created its file left nothing that could be read
        return b""


def judge(kind, res, must_reject, complete_records, where, hist, content=None):
    if kind == "raise":
        hist[res] = hist.get(res, 0) + 1
        return
    if must_reject and content is not None and _record_reads_as_box(content, len(res)):
        hist[KNOWN_BOX_LOOKALIKE] = hist.get(KNOWN_BOX_LOOKALIKE, 0) + 1
        hist.setdefault("_known_where", where)
        return
    if must_reject:
        raise PropertyViolation("accepted-incomplete", "%s is accepted and returns %d atom records"
                                % (where, len(res)), cls="accepted-incomplete:" + where.split(" ")[0])
    if res != complete_records:
        raise PropertyViolation("accepted-different", "%s is accepted but returns %d records that differ from the "
                                "complete file's %d" % (where, len(res), len(complete_records)),
                                cls="accepted-different:" + where.split(" ")[0])
    hist["accepted"] = hist.get("accepted", 0) + 1


def enumerate_prefixes(data, complete_records, lo=0, hi=None, hist=None):
    """Every prefix length L in [lo, hi) of `data`, by truncating one file."""
    hist = {} if hist is None else hist
    hi = len(data) if hi is None else hi
    path = env.fresh_path(".gro")
    with open(path, "wb") as f:
        f.write(data[:hi])
    bstart = box_line_start(data)
    first_atom = data.find(b"\n", data.find(b"\n") + 1) + 1
    n = nt = 0
    for L in range(hi - 1, lo - 1, -1):
        os.truncate(path, L)
        kind, res = try_read(path)
        judge(kind, res, L <= bstart, complete_records, "prefix of %d/%d bytes (box line starts at %d)"
              % (L, len(data), bstart), hist, content=data[:L])
        n += 1
        if data.find(b"\n") < L <= bstart:
            nt += 1
    return n, nt, hist


# ------------------------------------------------------------------ writer crash states
class _LogFile:
    def __init__(self, real, log):
        object.__setattr__(self, "_real", real)
        object.__setattr__(self, "_log", log)

    def write(self, s):
        self._log.append(("write", s))
        return self._real.write(s)

    def seek(self, pos, *a):
        self._log.append(("seek", pos))
        return self._real.seek(pos, *a)

    def close(self):
        self._log.append(("close", None))
        return self._real.close()

    def __getattr__(self, name):
        return getattr(self._real, name)

    def __iter__(self):
        return iter(self._real)


def write_logged(case, path):
    log = []

    def fake_open(file, mode="r", *a, **k):
        real = builtins.open(file, mode, *a, **k)
        if file == path and "w" in mode:
            return _LogFile(real, log)
        return real
    gparsers.open = fake_open
    try:
        c13.write_with_library(case, path)
    finally:
        del gparsers.open
    if not any(op == "write" for op, _ in log):
        raise HarnessError("the writer no longer resolves `open` through gaddlemaps.parsers: nothing was observed")
    return log


def crash_states(log):
    """(description, bytes, box_started) after every op and every partial write.
    box_started: at least one byte of the box line has been written.  Before that
    the state must be rejected; from then on it is a truncation inside the box
    line, which may be accepted provided the atom records are the complete file's."""
    buf = bytearray()
    pos = 0
    out = []
    writes = [i for i, (op, _) in enumerate(log) if op == "write"]
    # the box text is the second-to-last write (text, then newline)
    box_op = writes[-2] if len(writes) >= 2 else None
    for i, (op, arg) in enumerate(log):
        if op == "seek":
            pos = arg
            out.append(("after op %d (seek %d)" % (i, arg), bytes(buf), i > box_op))
        elif op == "write":
            data = arg.encode("utf-8")
            # partial writes are enumerated for appends only (they are byte-level truncations of the
            # output so far); the in-place back-fill of the count is one operation of the statement's
            # crash model ("between the steps of close") and is not torn
            first = 1 if pos >= len(buf) else len(data)
            for k in range(1, len(data) + 1):
                end = pos + k
                if end > len(buf):
                    buf.extend(b"\0" * (end - len(buf)))
                buf[pos + k - 1:pos + k] = data[k - 1:k]
                if k < first:
                    continue
                complete = i >= box_op
                tag = "after" if k == len(data) else "inside"
                out.append(("%s op %d (write %d/%d bytes at %d)" % (tag, i, k, len(data), pos), bytes(buf), complete))
            pos += len(data)
    return out


def check_generated(case):
    path = env.fresh_path(".gro")
    log = lib("write", write_logged, case, path)
    with open(path, "rb") as f:
        data = f.read()
    kind, complete = try_read(path)
    if kind != "ok" or len(complete) != len(case["records"]):
        raise PropertyViolation("complete-file", "the complete file is not readable: %r" % (complete,))
    states = crash_states(log)
    if states[-1][1] != data:
        raise HarnessError("replay of the write log does not reproduce the file")
    hist = {}
    n = nt = 0
    spath = env.fresh_path(".gro")
    header_end = data.find(b"\n") + 1
    seen = set()
    for desc, content, box_done in states[:-1]:
        if content in seen:
            continue
        seen.add(content)
        with open(spath, "wb") as f:
            f.write(content)
        kind, res = try_read(spath)
        judge(kind, res, not box_done, complete, "crash " + desc, hist, content=content)
        n += 1
        if len(content) > header_end and not box_done:
            nt += 1
    n2, nt2, hist = enumerate_prefixes(data, complete, hist=hist)
    if case.get("crlf"):
        # the same complete file with CRLF line ends (as written on / copied from another platform)
        crlf = data.replace(b"\n", b"\r\n")
        cpath = env.fresh_path(".gro")
        with open(cpath, "wb") as f:
            f.write(crlf)
        kind, ccomplete = try_read(cpath)
        if kind != "ok" or ccomplete != complete:
            raise PropertyViolation("complete-file", "the complete file with CRLF line ends is not read like the LF file: %r"
                                    % (ccomplete if kind != "ok" else "records differ",), cls="complete-file:crlf")
        n3, nt3, hist = enumerate_prefixes(crlf, complete, hist=hist)
        n2 += n3
        nt2 += nt3
    # the writer abandoned for real: the producing code stops (an exception, an early return), close() is never called
    # and the object is garbage-collected - whatever the library does at that moment, the file must not read as a system
    import gc
    nrec = len(case["records"])

    def out_path():
        # a re-run: the output path still holds the complete file of the previous run
        p = env.fresh_path(".gro")
        if case.get("rerun"):
            with open(p, "wb") as f:
                f.write(data)
        return p
    for k in sorted(set([0, 1, nrec // 2, nrec - 1, nrec])):
        apath = out_path()
        g = GroFile(apath, "w")
        try:
            with env.quiet():
                if case["title"] is not None:
                    g.comment = case["title"]
                if case["format"] is not None:
                    g.position_format = (case["format"] + 5, case["format"])
                if case["declare"]:
                    g.natoms = nrec
                for r in case["records"][:k]:
                    g.writeline(list(r))
        except Exception:      # noqa: BLE001
            pass
        del g
        gc.collect()
        kind, res = try_read(apath)
        judge(kind, res, True, complete, "abandoned writer after %d of %d records (%s count, no close)"
              % (k, nrec, "declared" if case["declare"] else "undeclared"), hist, content=_bytes(apath))
        n += 1
        nt += 1
    # a value too wide for its column in the last record (a molecule that drifted out of the representable range) makes
    # that line longer; a writer abandoned after all declared records - no box line - must still not read as a system
    if nrec >= 2:
        wide = [list(r) for r in case["records"]]
        wide[-1][6] = 12345.678
        opath = out_path()
        g = GroFile(opath, "w")
        try:
            with env.quiet():
                if case["format"] is not None:
                    g.position_format = (case["format"] + 5, case["format"])
                g.natoms = nrec
                for r in wide:
                    g.writeline(list(r))
        except Exception:      # noqa: BLE001
            pass
        del g
        gc.collect()
        kind, res = try_read(opath)
        judge(kind, res, True, complete, "abandoned writer after %d of %d records, the last one with an over-wide value"
              % (nrec, nrec), hist, content=_bytes(opath))
        n += 1
        nt += 1
    # part-way through closing: with a declared count, close() after fewer records raises -
    # what it leaves behind must not read as a system either
    if case["declare"] and len(case["records"]) >= 2:
        for k in sorted(set([1, len(case["records"]) - 1, len(case["records"]) + 1])):
            extra = k > len(case["records"])          # one record MORE than declared: close() refuses that as well
            short = dict(case, records=case["records"][:k] if not extra else case["records"])
            fpath = out_path()
            g = GroFile(fpath, "w")
            try:
                with env.quiet():
                    if case["format"] is not None:
                        g.position_format = (case["format"] + 5, case["format"])
                    g.natoms = len(case["records"]) if not extra else len(case["records"]) - 1
                    for r in short["records"]:
                        g.writeline(list(r))
                    g.close()
            except Exception:     # noqa: BLE001
                pass
            else:
                raise PropertyViolation("close-count-mismatch", "close() accepted %d records for a declared count of %d"
                                        % (k, len(case["records"])))
            try:
                g._file.close()
            except Exception:     # noqa: BLE001
                pass
            kind, res = try_read(fpath)
            judge(kind, res, True, complete, "failed-close after %d of %d declared records" % (k, len(case["records"])), hist,
                  content=_bytes(fpath))
            n += 1
            nt += 1
    if hist.get(KNOWN_BOX_LOOKALIKE):
        raise PropertyViolation("accepted-incomplete", "%s is accepted: the atom record that follows the declared atoms "
                                "consists of nine numbers and is read as a triclinic box line (%d such states in this "
                                "case)" % (hist["_known_where"], hist[KNOWN_BOX_LOOKALIKE]), cls=KNOWN_BOX_LOOKALIKE)
    return {"units": (n + n2, nt + nt2),
            "classes": ["declared" if case["declare"] else "backfilled", "vel" if case["vel"] else "novel",
                        "fmt:%s" % ("default" if case["format"] is None else "custom"),
                        "crlf+lf" if case.get("crlf") else "lf", "over-previous-output" if case.get("rerun") else "fresh-output"] +
                       ["outcome:" + k for k in hist],
            "sample": {"n_atoms": len(case["records"]), "declare": case["declare"], "vel": case["vel"],
                       "format": case["format"], "file_bytes": len(data), "crash_states": n, "prefixes": n2,
                       "outcomes": hist, "example_states": [s[0] for s in states[:3]] + [states[-2][0]]}}


@st.composite
def generated_case(draw, tier):
    case = draw(c13.case_strategy())
    limit = 300 if tier == "thorough" else 40
    case["records"] = case["records"][:limit]
    case["crlf"] = draw(st.integers(0, 2)) == 0
    case["rerun"] = draw(st.booleans())
    if draw(st.integers(0, 3)) == 0:
        # the last record's names look like numbers (a line that reads as numbers only must still not pass for a box)
        case["records"][-1][1] = draw(st.sampled_from(c13.NUMBERLIKE[:8]))
        case["records"][-1][2] = draw(st.sampled_from(c13.NUMBERLIKE[:8]))
    # numbers beyond five digits are C13's subject; keep files plain here
    return case


# ------------------------------------------------------------------ shipped files
CHUNK = 4096


def shipped_cases(tier, seed):
    names = sorted(f for f in os.listdir(env.DATA) if f.endswith(".gro")
                   and os.path.getsize(os.path.join(env.DATA, f)) > 0)
    cases = []
    for nm in names:
        size = os.path.getsize(os.path.join(env.DATA, nm))
        for lo in range(0, size, CHUNK):
            cases.append({"file": nm, "lo": lo, "hi": min(size, lo + CHUNK)})
    return cases, True


def check_shipped(case):
    with open(os.path.join(env.DATA, case["file"]), "rb") as f:
        data = f.read()
    full = env.fresh_path(".gro")
    with open(full, "wb") as f:
        f.write(data)
    kind, complete = try_read(full)
    if kind != "ok":
        raise HarnessError("shipped file %s is not readable: %s" % (case["file"], complete))
    n, nt, hist = enumerate_prefixes(data, complete, case["lo"], case["hi"])
    return {"units": (n, nt), "classes": ["file:" + case["file"]] + ["outcome:" + k for k in hist],
            "sample": dict(case, outcomes=hist)}


SUBCHECKS = [
    Sub("generated", check_generated, strategy=lambda tier: generated_case(tier), quick=240, thorough=8000,
        min_share={"declared": 0.25, "backfilled": 0.25}),
    Sub("shipped", check_shipped, enumerate=shipped_cases,
        note="every byte prefix of every intact shipped .gro file"),
]
