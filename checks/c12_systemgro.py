"""C12  Coordinate-file view tiles the file into residues with stable random access.

Model-based access histories: a case is (file layout, operation list); the
model is the list of residues obtained by the harness' own parser from the
same bytes."""
import os

import numpy as np
from hypothesis import strategies as st

from vlib import env, gen, indep  # noqa: F401
from vlib.build import lib
from vlib.report import PropertyViolation
from vlib.runner import Sub

from gaddlemaps.components import SystemGro

PROPERTY = "C12"
LEVEL = "exploration"
RULE = ("files of 1..60 (quick) / 1..400 (thorough) residues of 1..12 atoms written by the harness; layouts: blocks, "
        "alternating kinds, same name with different sizes, same name and size with different atom names, kinds colliding "
        "in every combination of name / size / atom names in random first-seen order, neighbours "
        "differing only in number or only in name, residue names beginning with a digit, repeated numbers; with / "
        "without velocities (some atoms frozen: velocity components exactly zero), LF or CRLF line ends; access histories of up to 40 (quick) / 200 operations: index, negative index, slice with "
        "negative bounds/steps, several live iterators advanced in pieces, out-of-range; in half of the cases the path "
        "held another file of equal size and modification time that was read through the library before. Non-trivial = file with >=3 "
        "kind changes and a backward seek after a partial iteration. Distinct = sha1 of the case JSON.")
ASSUMPTIONS = [
    "files are standard fixed-column .gro files (3 decimals) written by the harness",
    "a residue boundary is exactly where the residue number or the residue name changes (the statement); adjacent "
    "records with equal number and name are one residue for the model as well",
]

LAYOUTS = ["blocks", "alternating", "same-name-sizes", "same-name-atoms", "only-number", "only-name",
           "digit-names", "random", "mixed-kinds", "mixed-kinds", "wide-names"]


@st.composite
def file_case(draw, tier):
    layout = draw(st.sampled_from(LAYOUTS))
    nmax = 400 if tier == "thorough" else 60
    nres = draw(st.integers(1, nmax if draw(st.integers(0, 4)) == 0 else 14)) if draw(st.integers(0, 5)) == 0 else draw(st.integers(5, nmax if draw(st.integers(0, 4)) == 0 else 20))
    rng = np.random.default_rng(draw(gen.SEEDS))
    vel = draw(st.booleans())

    def atoms(k, tag="C"):
        return ["%s%d" % (tag, i + 1) for i in range(k)]

    if layout == "same-name-sizes":
        kinds = [("LIG", atoms(int(s))) for s in rng.choice(np.arange(1, 13), size=3, replace=False)]
    elif layout == "same-name-atoms":
        k = int(rng.integers(1, 8))
        kinds = [("LIG", atoms(k, "C")), ("LIG", atoms(k, "N")), ("LIG", atoms(k, "O"))]
    elif layout == "mixed-kinds":
        # kinds colliding in every combination of (name, size, atom names), first seen in a random order
        sizes = [int(v) for v in rng.choice(np.arange(1, 9), size=2, replace=False)]
        combos = [(nm, sz, tag) for nm in ("LIG", "SOL", "LIG2") for sz in sizes for tag in ("C", "N")]
        pick = rng.choice(len(combos), size=int(rng.integers(3, 8)), replace=False)
        kinds = [(combos[i][0], atoms(combos[i][1], combos[i][2])) for i in pick]
    elif layout == "wide-names":
        # residue and atom names that fill their five columns (they touch in the line), next to short ones
        kinds = [("GLYCN", ["HO6AB", "C1", "OWTP5"]), ("TIP5P", ["OWTP5", "HW1", "HW2XX"]), ("GLY", ["HO6AB", "N"]),
                 ("CN", atoms(int(rng.integers(1, 5))))]
    elif layout == "digit-names":
        kinds = [("2A", atoms(int(rng.integers(1, 5)))), ("A", atoms(int(rng.integers(1, 5)))),
                 ("1A", atoms(int(rng.integers(1, 5)))), ("11A", atoms(2))]
    else:
        names = list(rng.choice(gen.RESNAMES, size=4, replace=False))
        kinds = [(str(nm), atoms(int(rng.integers(1, 13)))) for nm in names]
    seq = []
    resid = int(rng.integers(1, 50)) if layout != "digit-names" else 1
    if draw(st.integers(0, 9)) == 0:
        resid = 99990                                   # cross the five-digit wrap
    k = 0
    while len(seq) < nres:
        if layout == "blocks":
            run = int(rng.integers(1, 9))
            seq += [(k % len(kinds), None)] * run
            k += 1
        elif layout == "alternating":
            seq.append((len(seq) % 2 if rng.random() < 0.8 else int(rng.integers(0, len(kinds))), None))
        else:
            seq.append((int(rng.integers(0, len(kinds))), None))
    seq = seq[:nres]
    records = []
    resids = []
    prev = None
    for r, (ki, _) in enumerate(seq):
        if layout == "only-name" and prev is not None and prev != ki and rng.random() < 0.6:
            pass                                        # same number, other name
        elif layout == "digit-names":
            resid = int(rng.choice([1, 2, 11, 12, 21, 111]))
            if prev == ki and resids and resids[-1] == resid:
                resid += 1
        elif layout == "random" and rng.random() < 0.15:
            resid = int(rng.integers(1, 30))
            if prev == ki and resids and resids[-1] == resid:
                resid += 1
        else:
            resid += 1
        resids.append(resid)
        prev = ki
        rn, names = kinds[ki]
        for an in names:
            xyz = np.round(rng.uniform(-99, 99, 3), 3)
            if rng.random() < 0.1:
                xyz[rng.random(3) < 0.6] = 0.0              # atoms on a coordinate plane / at the origin
            rec = [resid, rn, an, len(records) + 1] + xyz.tolist()
            if vel:
                v = np.round(rng.uniform(-9, 9, 3), 4)
                if rng.random() < 0.25:
                    v[rng.random(3) < 0.7] = 0.0            # frozen atoms: some or all components exactly zero
                rec += v.tolist()
            records.append(rec)
    title = draw(st.sampled_from(["system", "Generated  title, t= 0.0", "x", "", "   ", " \t", "42", "  leading and trailing  "]))
    box = np.round(rng.uniform(1, 50, 3), 5).tolist()
    nops = draw(st.integers(1, 200 if tier == "thorough" else 40))
    ops = draw(st.lists(op_strategy(), min_size=1, max_size=nops))
    return {"layout": layout, "records": records, "title": title, "box": box, "vel": vel, "ops": ops,
            "prior": draw(st.booleans()), "crlf": draw(st.integers(0, 4)) == 0, "fresh_for_ops": draw(st.booleans()),
            "align": draw(st.sampled_from([0, 0, 0, 1, 2, 3])),
            "naming": draw(st.sampled_from(["abs", "abs", "abs", "rel-chdir", "handle-rel-chdir", "replaced", "renamed", "handle-replaced"]))}


@st.composite
def op_strategy(draw):
    k = draw(st.sampled_from(["index", "index", "neg", "slice", "iter", "adv", "adv", "oor", "len"]))
    if k in ("index", "neg"):
        return [k, draw(st.integers(0, 10 ** 6))]
    if k == "slice":
        # bounds are mapped into [-n-2, n+2] when the file length n is known (all sign combinations in range)
        return ["slice", draw(st.one_of(st.none(), st.integers(0, 10 ** 6))),
                draw(st.one_of(st.none(), st.integers(0, 10 ** 6))),
                draw(st.one_of(st.none(), st.integers(-7, 7).filter(lambda v: v != 0)))]
    if k == "adv":
        return ["adv", draw(st.integers(0, 5)), draw(st.integers(1, 30))]
    if k == "oor":
        return ["oor", draw(st.integers(0, 5)), draw(st.booleans())]
    return [k]


def residue_records(res):
    out = []
    for a in res:
        rec = (a.resid, a.resname, a.name, a.atomid) + tuple(float(v) for v in a.position)
        if a.velocity is not None:
            rec += tuple(float(v) for v in a.velocity)
        out.append(rec)
    return out


def check(case):
    cwd0 = os.getcwd()
    handles = []
    try:
        return _check(case, handles)
    finally:
        os.chdir(cwd0)
        for h in handles:
            h.close()


def _check(case, handles):
    # naming: how the file is named when it is loaded and what becomes of that name afterwards - a relative name and a
    # later change of the working directory (to one that holds another file of that name), a file replaced or renamed
    # on disk after loading (the loaded object keeps reading the file it opened)
    naming = case.get("naming", "abs")
    d1 = env.fresh_dir()
    path = os.path.join(d1, "conf.gro")
    records = [tuple(r) for r in case["records"]]
    decoy = [tuple(r[:4]) + tuple(-v for v in r[4:]) for r in records[::-1]]
    decoy = [(r[0], r[1], r[2], k + 1) + tuple(r[4:]) for k, r in enumerate(decoy)]
    lpath = path
    if "rel" in naming:
        os.chdir(d1)
        lpath = "conf.gro"

    def source():
        if naming.startswith("handle"):
            handles.append(open(lpath))
            return handles[-1]
        return lpath
    if case.get("prior"):
        # the same path held another file of the same size (and modification time) before, and was read through the library
        other = [tuple(r[:4]) + tuple(-v for v in r[4:]) for r in records[::-1]]
        other = [(r[0], r[1], r[2], k + 1) + tuple(r[4:]) for k, r in enumerate(other)]
        indep.write_gro(path, case["title"], other, case["box"][::-1])
        os.utime(path, (1700000000, 1700000000))
        old = lib("load", SystemGro, source())
        lib("iterate", list, old)
        del old
    indep.write_gro(path, case["title"], records, case["box"], newline="\r\n" if case.get("crlf") else None,
                    align=case.get("align", 0))
    if case.get("prior"):
        os.utime(path, (1700000000, 1700000000))
    parsed = indep.read_gro(path)
    model = indep.split_residues(parsed["records"])
    n = len(model)
    sg = lib("load", SystemGro, source())

    edits = [0]

    def same(res, k, what):
        got = residue_records(res)
        if got != model[k]:
            raise PropertyViolation("access", "%s: residue %d returned %r..., file has %r... (%d vs %d atoms, layout %s)"
                                    % (what, k, got[:2], model[k][:2], len(got), len(model[k]), case["layout"]),
                                    cls="access:" + case["layout"])
        if (k + len(what)) % 3 == 0:
            # what was handed out belongs to the caller: it is edited in place (moved, renumbered) - the file, and
            # what the next access returns, stay what they are
            try:
                with env.quiet():
                    res.atoms_positions = res.atoms_positions + 5.0
                    res.atoms_ids = [i + 7 for i in res.atoms_ids]
                    res.resid = res.resid + 1
                edits[0] += 1
            except Exception:      # noqa: BLE001   (the setters are C18's subject)
                pass
    if lib("len", len, sg) != n:
        raise PropertyViolation("count", "len()=%d, the file has %d residues (layout %s)" % (len(sg), n, case["layout"]),
                                cls="count:" + case["layout"])
    if sg.n_atoms != len(records):
        raise PropertyViolation("count", "n_atoms=%r, file has %d" % (sg.n_atoms, len(records)))
    if not np.allclose(np.array(sg.box_matrix, float), parsed["box"], rtol=0, atol=1e-12):
        raise PropertyViolation("box", "box %r vs file %r" % (sg.box_matrix, parsed["box"]))
    if sg.comment_line.rstrip("\n") != case["title"]:
        raise PropertyViolation("title", "title %r vs %r" % (sg.comment_line, case["title"]))
    full = lib("iterate", list, sg)
    if len(full) != n:
        raise PropertyViolation("tiling", "iteration yields %d residues, file has %d (layout %s)" % (len(full), n, case["layout"]),
                                cls="tiling:" + case["layout"])
    flat = [rec for res in full for rec in residue_records(res)]
    if flat != parsed["records"]:
        raise PropertyViolation("tiling", "concatenated residues differ from the file's atom records")
    for k, res in enumerate(full):
        same(res, k, "iteration")

    if case.get("fresh_for_ops"):
        # the access history runs on an object that has not been walked completely before (whatever it builds lazily
        # is still incomplete); the first object stays alive beside it
        sg_first = sg
        sg = lib("load", SystemGro, source())
    if naming != "abs":
        d2 = env.fresh_dir()
        indep.write_gro(os.path.join(d2, "conf.gro"), case["title"], decoy, case["box"][::-1])
        if "rel" in naming:
            os.chdir(d2)
        elif "replaced" in naming:
            os.replace(os.path.join(d2, "conf.gro"), path)
        else:
            os.rename(path, path + ".moved")
    iters = []          # [iterator, position]
    partial = False
    backward = False
    last_pos = None
    for step, op in enumerate(case["ops"]):
        kind = op[0]
        if naming.startswith("handle") and handles:
            # the opened file belongs to the caller as well: its cursor is moved between two accesses
            handles[-1].seek(0)
            handles[-1].readline()
        if kind == "index":
            k = op[1] % n
            same(lib("index", sg.__getitem__, k), k, "step %d sg[%d]" % (step, k))
            same(lib("index", sg.__getitem__, k), k, "step %d sg[%d] again" % (step, k))
            backward |= partial and last_pos is not None and k < last_pos
        elif kind == "neg":
            k = op[1] % n
            same(lib("index", sg.__getitem__, k - n), k, "step %d sg[%d]" % (step, k - n))
            same(lib("index", sg.__getitem__, k - n), k, "step %d sg[%d] once more" % (step, k - n))
            backward |= partial and last_pos is not None and k < last_pos
        elif kind == "slice":
            edge = [-n - 1, -n, -n + 1, -1, 0, 1, n - 1, n, n + 1]

            def bound(v):
                if v is None:
                    return None
                return edge[(v // 3) % len(edge)] if v % 3 == 0 else v % (2 * n + 5) - n - 2      # a third: exactly at a boundary
            lo, hi = bound(op[1]), bound(op[2])
            sl = slice(lo, hi, op[3])
            got = lib("slice", sg.__getitem__, sl)
            idx = list(range(n))[sl]
            if len(got) != len(idx):
                raise PropertyViolation("slice", "step %d: slice %r returns %d residues, expected %d" % (step, sl, len(got), len(idx)))
            for res, k in zip(got, idx):
                same(res, k, "step %d slice %r" % (step, sl))
        elif kind == "iter":
            if len(iters) < 6:
                iters.append([iter(sg), 0])
        elif kind == "adv":
            if not iters:
                iters.append([iter(sg), 0])
            if iters:
                it = iters[op[1] % len(iters)]
                for _ in range(op[2]):
                    try:
                        with env.quiet():
                            res = next(it[0])
                    except StopIteration:
                        if it[1] != n:
                            raise PropertyViolation("iterator", "step %d: iterator stopped after %d of %d residues" % (step, it[1], n))
                        break
                    except Exception as exc:     # noqa: BLE001
                        raise PropertyViolation("iterator", "step %d: resuming an iterator at residue %d raised %s: %s"
                                                % (step, it[1], type(exc).__name__, str(exc)[:200]))
                    if it[1] >= n:
                        raise PropertyViolation("iterator", "step %d: iterator yields more than %d residues" % (step, n))
                    same(res, it[1], "step %d iterator" % step)
                    it[1] += 1
                    partial = True
                    last_pos = it[1]
        elif kind == "oor":
            k = n + op[1] if op[2] else -n - 1 - op[1]
            try:
                with env.quiet():
                    sg[k]
            except IndexError:
                pass
            except Exception as exc:     # noqa: BLE001
                raise PropertyViolation("out-of-range", "sg[%d] with %d residues raised %s" % (k, n, type(exc).__name__))
            else:
                raise PropertyViolation("out-of-range", "sg[%d] with %d residues returned a residue" % (k, n))
        else:
            if len(sg) != n:
                raise PropertyViolation("count", "len() changed to %d" % len(sg))
    changes = sum(1 for a, b in zip(model, model[1:]) if (a[0][1], len(a)) != (b[0][1], len(b)))
    return {"nontrivial": changes >= 3 and backward,
            "classes": ["layout:" + case["layout"], "vel" if case["vel"] else "novel",
                        "residues:%s" % ("1" if n == 1 else "2-14" if n <= 14 else "15+"),
                        "rewritten-path" if case.get("prior") else "fresh-path",
                        "crlf" if case.get("crlf") else "lf", "ops-on:" + ("fresh-object" if case.get("fresh_for_ops") else "walked-object"),
                        "zero-velocity-atom" if any(len(r) == 10 and not any(r[7:]) for r in records) else "no-frozen-atom",
                        "naming:" + naming, "names-placed:%d" % case.get("align", 0)],
            "sample": {"layout": case["layout"], "n_residues": n, "first_records": case["records"][:3], "ops": case["ops"][:12]}}


SUBCHECKS = [
    Sub("access", check, strategy=lambda tier: file_case(tier), quick=3200, thorough=160000,
        min_share={"layout:digit-names": 0.05, "layout:alternating": 0.05, "nontrivial": 0.1}),
]
