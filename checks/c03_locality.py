"""C03  Exchange map is local and shape-preserving under deformation."""
import numpy as np
from hypothesis import strategies as st

from vlib import env, gen  # noqa: F401
from vlib.build import build_molecule, lib, positions
from vlib.report import PropertyViolation
from vlib.runner import Sub

from checks import xmap_common as xc

PROPERTY = "C03"
LEVEL = "exploration"
RULE = ("reference 4..25 atoms (generic, exactly collinear or mixed construction geometry; one anchor of the new "
        "conformation exactly collinear in a quarter of the cases), target 2..30 atoms, s in {1} u (0,2]; new conformation = "
        "independent displacement (<=0.3 nm) of every reference atom, re-drawn until every anchor triple stays "
        "generic (sin>=1e-3); one further atom k displaced by <=0.5 nm for the locality clause, for every k in small "
        "molecules or 3 sampled k. Non-trivial = >=2 anchors used and >=1 mapped atom whose 3-atom stencil excludes a "
        "displaced atom. Distinct = sha1 of the case JSON.")
ASSUMPTIONS = [
    "every anchor of the construction and of the new conformation is either generic (sin>=1e-3) or exactly collinear "
    "with its frame neighbours; the ill-conditioned zone in between is not generated",
    "frame neighbours = the two lowest-numbered bonded atoms, computed by the harness from the generated edge list",
]


@st.composite
def case_strategy(draw):
    base = draw(xc.ref_tgt_case(nref=(4, 25), ntgt=(2, 30),
                                geoms=["generic", "generic", "generic", "mixed", "diagonal", "integer", "axis-z"],
                                nres_max=2, placements=("near", "mix", "near")))
    rng = np.random.default_rng(draw(gen.SEEDS))
    rpos = np.array(base["ref"]["coords"], float)
    n = len(rpos)
    edges = base["ref"]["edges"]
    for _ in range(200):
        new = rpos + rng.uniform(-0.3, 0.3, (n, 3))
        d = np.sqrt(((new[:, None] - new[None]) ** 2).sum(-1)) + np.eye(n) * 10
        if d.min() >= 1e-2 and gen.min_anchor_sine(new, edges) >= 1e-3:
            break
    else:
        raise RuntimeError("no generic conformation")
    conf = "generic"
    tiny = draw(st.integers(0, 4)) == 0 and gen.min_anchor_sine(rpos, edges) >= 1e-2      # (well-conditioned frames only)
    if tiny:
        # almost a pure translation of the construction conformation: a shift of some nm plus independent
        # displacements of 1e-8 .. 1e-4 nm per atom (a shortcut for 'translated replicas' must not swallow them)
        new = rpos + rng.uniform(-20, 20, 3) + rng.normal(0, 10.0 ** rng.uniform(-8, -4), (n, 3))
        conf = "nearly-translated"
    if not tiny and draw(st.integers(0, 3)) == 0:
        # one anchor of the NEW conformation exactly collinear with its frame neighbours (lattice line)
        triples = gen.anchor_triples(n, edges)
        for _ in range(50):
            a, n1, n2 = triples[int(rng.integers(0, len(triples)))]
            d = gen.line_direction(str(rng.choice(gen.LINE_CLASSES)), rng).astype(float)
            pa = np.round(new[a] * 8)
            k1, k2 = 0, 0
            while k1 == 0 or k2 == 0 or k1 == k2:
                k1, k2 = (int(v) for v in rng.integers(-3, 4, size=2))
            cand = new.copy()
            cand[a] = pa / 8
            cand[n1] = (pa + k1 * d) / 8
            cand[n2] = (pa + k2 * d) / 8
            dm = np.sqrt(((cand[:, None] - cand[None]) ** 2).sum(-1)) + np.eye(n) * 10
            if dm.min() >= 1e-2 and "grey" not in xc.classify_anchors(cand, edges).values() \
                    and "near" not in xc.classify_anchors(cand, edges).values():
                new = cand
                conf = "collinear-anchor"
                break
    base["conf"] = conf
    if n <= 8:
        ks = list(range(n))
    else:
        ks = sorted(set(int(v) for v in rng.integers(0, n, 3)))
    disp = rng.uniform(-0.5, 0.5, (len(ks), 3)) * (10.0 ** rng.uniform(-6, -3) if tiny or draw(st.integers(0, 5)) == 0 else 1.0)
    base.update({"new": new.tolist(), "ks": ks, "disp": disp.tolist(),
                 "how": draw(st.sampled_from(["fresh", "fresh", "inplace"])), "prior_seed": draw(st.integers(0, 2 ** 31)),
                 "rescale": draw(st.sampled_from([None, None, None, None, 0.25, 0.8, 1.0, 1.9]))})
    return base


def check(case):
    s = case["s"]
    rpos = np.array(case["ref"]["coords"], float)
    tpos = np.array(case["tgt"]["coords"], float)
    new = np.array(case["new"], float)
    n = len(rpos)
    edges = case["ref"]["edges"]
    ref, tgt = xc.build_pair(case)
    M = xc.make_map(ref, tgt, s)
    anchors, assign = xc.oracle_assignment(case)
    chosen = xc.check_equivalences(M, assign)
    prior = xc.prior_call(M, case, case.get("prior_seed", 0))
    if case.get("rescale") is not None:
        M.scale_factor = case["rescale"]
    if case.get("how") == "inplace":
        # the new conformation is given to the very molecule object the map was built from
        ref.atoms_positions = new.copy()
        conf = ref
    else:
        conf = build_molecule(case["ref"], coords=new)
    out = positions(lib("map-apply", M, conf))
    if not np.all(np.isfinite(out)):
        raise PropertyViolation("finite", "non-finite mapped coordinates")

    def shape_violation(s):
        by_anchor = {}
        # (a) distance to the anchor scales by s
        for j, a in enumerate(chosen):
            d_old = float(np.linalg.norm(tpos[j] - rpos[a]))
            d_new = float(np.linalg.norm(out[j] - new[a]))
            if not abs(d_new - s * d_old) <= 1e-9 * max(1.0, d_old):
                return PropertyViolation("anchor-distance", "atom %d: |mapped-anchor|=%.12g, expected s*%.12g=%.12g"
                                        % (j, d_new, d_old, s * d_old))
        # (b) atoms sharing an anchor keep their mutual distances x s
        for j, a in enumerate(chosen):
            by_anchor.setdefault(a, []).append(j)
        for a, js in by_anchor.items():
            if len(js) > 1:
                d0 = np.linalg.norm(tpos[js][:, None] - tpos[js][None], axis=-1)
                d1 = np.linalg.norm(out[js][:, None] - out[js][None], axis=-1)
                if not np.abs(d1 - s * d0).max() <= 1e-9 * max(1.0, d0.max()):
                    return PropertyViolation("shared-anchor-shape", "atoms of anchor %d: mutual distances differ "
                                            "from s x construction by %.3e" % (a, np.abs(d1 - s * d0).max()))
        return None

    if case.get("rescale") is not None:
        # the public attribute was re-assigned after construction (and after a call): the statement fixes s at
        # construction, so either the construction value or - if the library chooses to honour the attribute - the
        # new value must describe the whole result
        v = shape_violation(s)
        if v is not None and shape_violation(case["rescale"]) is not None:
            raise PropertyViolation(v.clause, "after map.scale_factor was set from %r to %r: %s"
                                    % (s, case["rescale"], v.message), cls="rescaled:" + v.clause)
    else:
        v = shape_violation(s)
        if v is not None:
            raise v
    # (c) locality
    stencil = {a: {a, n1, n2} for a, n1, n2 in gen.anchor_triples(n, edges)}
    n_outside = 0
    for k, dv in zip(case["ks"], case["disp"]):
        new2 = new.copy()
        new2[k] += np.array(dv)
        conf2 = build_molecule(case["ref"], coords=new2)
        out2 = positions(lib("map-apply", M, conf2))
        for j, a in enumerate(chosen):
            if k in stencil[a]:
                continue
            n_outside += 1
            err = float(np.abs(out2[j] - out[j]).max())
            if not err <= 1e-12:
                raise PropertyViolation("locality", "displacing reference atom %d moves mapped atom %d "
                                        "(anchor %d, stencil %r) by %.3e" % (k, j, a, sorted(stencil[a]), err))
    # history independence inside this case: mapping `conf` again gives the same result
    again = positions(lib("map-apply", M, conf))
    if not np.array_equal(again, out):
        raise PropertyViolation("repeatable", "mapping the same conformation after other calls differs")
    nused = len(set(chosen))
    return {"nontrivial": nused >= 2 and n_outside > 0,
            "classes": ["anchors-used:%s" % ("1" if nused == 1 else "2+"),
                        "s=1" if s == 1.0 else "s!=1", "graph:" + case["ref"]["graph"],
                        "how:" + case.get("how", "fresh"), "after-other-call" if prior else "first-call",
                        "conf:" + case.get("conf", "generic"), "geom:" + case["geom"],
                        "scale-attribute-reassigned" if case.get("rescale") is not None else "scale-fixed"]}


# ------------------------------------------------------------------ the maps a Manager keeps for its species
@st.composite
def manager_route_case(draw):
    from checks import c10_restraints as c10
    case = draw(c10.manager_case())
    case["bad"] = None
    case["scale"] = draw(st.sampled_from([0.5, 1.0, 0.3, 1.7]))
    case["change"] = draw(st.sampled_from(["move-end", "rotate-end", "move-start", "positions-end"]))
    return case


def check_manager_route(case):
    """Manager.calculate_exchange_maps(s), then the overlap of every species is changed IN PLACE (the molecules of its
    Alignment are moved / rotated / given new coordinates), then calculate_exchange_maps(s) again with the same scale:
    the maps are those of the molecules as they are now - every mapped atom sits at s times its present distance from
    its (present) nearest anchor."""
    from checks import c10_restraints as c10
    man, specs = c10.build_manager(case)
    s = case["scale"]
    lib("maps", man.calculate_exchange_maps, s)
    rng = np.random.default_rng(case["seed"] + 11)
    for sp in case["species"]:
        ali = man.molecule_correspondence[sp["name"]]
        if case["change"] == "move-end":
            lib("move", ali.end.move, np.round(rng.uniform(-0.3, 0.3, 3), 3))
        elif case["change"] == "rotate-end":
            lib("rotate", ali.end.rotate, gen.random_rotation(rng))
        elif case["change"] == "move-start":
            lib("move", ali.start.move, np.round(rng.uniform(-0.3, 0.3, 3), 3))
        else:
            ali.end.atoms_positions = positions(ali.end) + rng.normal(0, 0.05, positions(ali.end).shape)
    lib("maps-again", man.calculate_exchange_maps, s)
    used = 0
    for sp in case["species"]:
        name = sp["name"]
        ali = man.molecule_correspondence[name]
        rpos, tpos = positions(ali.start), positions(ali.end)
        sub = {"ref": {"coords": rpos.tolist(), "edges": specs[(name, "start")]["edges"]}, "tgt": {"coords": tpos.tolist()}}
        anchors, assign = xc.oracle_assignment(sub)
        M = ali.exchange_map
        out = positions(lib("map-apply", M, ali.start))
        chosen = xc.check_equivalences(M, assign)
        for t, a in enumerate(chosen):
            want = s * float(np.linalg.norm(tpos[t] - rpos[a]))
            got = float(np.linalg.norm(out[t] - rpos[a]))
            if not abs(got - want) <= 1e-9 * max(1.0, want):
                raise PropertyViolation("anchor-distance", "Manager route (%s, then the same scale again), species %s: atom "
                                        "%d is %.12g from its anchor, s x present distance = %.12g"
                                        % (case["change"], name, t, got, want), cls="anchor-distance:manager-route")
        used += len(set(chosen))
    return {"nontrivial": used >= 2, "classes": ["change:" + case["change"], "s=1" if s == 1.0 else "s!=1"],
            "sample": {"species": case["species"], "change": case["change"], "scale": s}}


SUBCHECKS = [
    Sub("manager-route", check_manager_route, strategy=lambda tier: manager_route_case(), quick=400, thorough=15000),
    Sub("deform", check, strategy=lambda tier: case_strategy(),
        quick=3000, thorough=150000, min_share={"anchors-used:2+": 0.3, "conf:collinear-anchor": 0.08}),
]
