"""C20  Command-line mapping equals the library workflow; discovery is deterministic."""
import itertools
import json
import os
import subprocess
import sys

import numpy as np
from hypothesis import strategies as st

from vlib import env, gen, indep  # noqa: F401
from vlib.build import lib, spec_records, step_cap
from vlib.report import Discard, HarnessError, PropertyViolation
from vlib.runner import Sub

import gaddlemaps
from gaddlemaps import Alignment, Manager, _cli
from gaddlemaps.components import Molecule
from vlib.build import custom_coordinate_format

CUSTOM_EXT = custom_coordinate_format()         # registered AFTER gaddlemaps._cli was imported (the layout of a user's script)

PROPERTY = "C20"
# species names: each of the others is contained in the second one (prefix / suffix), so that a test of the form
# "name in <text>" instead of "name in <list>" anywhere in the tool changes what is mapped
SPN = ["SP", "SP1", "P1"]


def spn(case, k):
    return case["species"][k]["start"]["name"]
LEVEL = "exploration"
RULE = ("generated directories: 2..3 species (start .itp, end .gro, end .itp; end size != start size), a system file with "
        "interleaved instances, and distractors (foreign extensions, files of a species absent from the system, a "
        "start-only solvent topology, a species lacking its end coordinates, second valid candidates, one coordinate file "
        "holding an end molecule of every species, the system file "
        "itself); plus the shipped BMIM/BF4 files. (cli) main() in-process with --mol / --auto / --exclude / --scale / "
        "-o absolute, relative to another working directory, or defaulted, the explicit triples and the --auto listing "
        "spelled as absolute, relative, ./relative or non-normalised paths independently, compared byte-for-byte with the library "
        "workflow under the same numpy seed; (discovery) sort_molecules in fresh interpreters under PYTHONHASHSEED "
        "0,1,7,random (quick) / 0..5 and two random seeds (thorough) x 4..6 listing orders, and main() with --mol / --auto / "
        "--exclude in the same interpreters with the pipeline replaced by a recorder (species and their order); (selection) main() with auto_map replaced by a recorder. "
        "Non-trivial = >=2 discoverable species and >=2 distractors. Distinct = sha1 of the case JSON.")
ASSUMPTIONS = [
    "Alignment.STEPS_FACTOR (a documented attribute) is lowered to the same value on both sides of the differential",
    "second candidates are copies of the end coordinates / end topology; a second copy of a START topology is not "
    "generated (which of two identical start topologies is 'the' start topology is not defined by the statement)",
    "for the --auto differential the species list is the one the CLI hands to its pipeline (recorded); that the list is "
    "the right one is judged by the discovery and selection sub-checks",
]

HASHSEEDS_THOROUGH = ["0", "1", "2", "3", "4", "5", "random", "random"]
HASHSEEDS_QUICK = ["0", "1", "7", "random"]


def hashseeds():
    return HASHSEEDS_THOROUGH if os.environ.get("VERIF_TIER_CURRENT") == "thorough" else HASHSEEDS_QUICK


# how a path is written on the command line: the explicit triples and the --auto listing may name the same file differently
SPELLINGS = ["abs", "abs", "rel", "dot", "nonnorm"]


def spell(path, style, cwd):
    if style == "rel":
        return os.path.relpath(path, cwd)
    if style == "dot":
        return "." + os.sep + os.path.relpath(path, cwd)
    if style == "nonnorm":
        d = os.path.dirname(path)
        return os.path.join(d, os.pardir, os.path.basename(d), os.path.basename(path))
    return path


def canon_path(path, cwd):
    return os.path.realpath(path if os.path.isabs(path) else os.path.join(cwd, path))


# ------------------------------------------------------------------ directory generator
@st.composite
def directory_case(draw):
    nsp = draw(st.integers(2, 3))
    rng = np.random.default_rng(draw(gen.SEEDS))
    species = []
    used = set()
    for k in range(nsp):
        for _ in range(50):
            ns = draw(st.integers(1, 4))
            ne = draw(st.integers(2, 8))
            if ns != ne and ns not in used and ne not in used:
                break
        used.update([ns, ne])

        def topo(n, rn, tag):
            edges = draw(gen.graph_edges(n, "tree")) if n > 1 else []
            names = ["%s%d" % (draw(st.sampled_from(["C", "N", "O"])), i + 1) for i in range(n)]
            return {"name": SPN[k], "edges": edges, "residues": [[rn, 1, names]]}
        s = topo(ns, "S%dX" % k, "s")
        e = topo(ne, "E%dX" % k, "e")
        s = gen.with_coords(s, np.round(gen.walk_geometry(ns, s["edges"], rng, lo=0.25, hi=0.4, spread=0.1), 3))
        e = gen.with_coords(e, np.round(gen.walk_geometry(ne, e["edges"], rng, lo=0.1, hi=0.2, spread=0.1) + 1.0, 3))
        species.append({"start": s, "end": e})
    seq = draw(st.lists(st.integers(0, nsp - 1), min_size=nsp, max_size=6))
    for k in range(nsp):
        if k not in seq:
            seq.append(k)
    distractors = draw(st.lists(st.sampled_from(["foreign", "absent", "solvent", "system-file", "copy-gro",
                                                 "copy-itp", "missing-coords", "same-basename-gro", "same-basename-itp",
                                                 "shared-end-gro", "lookalike", "snapshots", "custom-format"]),
                                min_size=0, max_size=5, unique=True))
    shared_only = []
    if draw(st.integers(0, 3)) == 0:
        # the end coordinates of some species exist only inside a file shared by all species
        if "shared-end-gro" not in distractors:
            distractors = distractors + ["shared-end-gro"]
        shared_only = draw(st.lists(st.integers(0, nsp - 1), min_size=1, max_size=nsp, unique=True))
    return {"species": species, "sequence": seq, "distractors": distractors, "shared_only": shared_only,
            "solvent_in_system": draw(st.booleans()),
            "dup_of": draw(st.integers(0, nsp - 1)), "missing_of": draw(st.integers(0, nsp - 1)),
            "known": draw(st.lists(st.integers(0, nsp - 1), max_size=nsp - 1, unique=True)),
            "exclude": draw(st.lists(st.integers(0, nsp - 1), max_size=1, unique=True)),
            "scale": draw(st.sampled_from([0.5, 0.5, 1.0, 0.3, 0.77, 0.0, 1e-3, 2.0])),
            "outmode": draw(st.sampled_from(["default", "absolute", "relative", "relative-subdir", "default-symlink"])),
            "mode": draw(st.sampled_from(["mol", "auto", "mixed"])),
            "seed": draw(gen.SEEDS), "orders": draw(st.integers(4, 6)),
            "spelling": [draw(st.sampled_from(SPELLINGS)), draw(st.sampled_from(SPELLINGS))]}


def build_directory(case, rename_end=False):
    d = os.path.realpath(env.fresh_dir())
    inputs = os.path.join(d, "inputs")
    os.makedirs(inputs)
    rng = np.random.default_rng(case["seed"])
    files = {}
    records = []
    resid = 0
    seq = list(case["sequence"])
    solvent = "solvent" in case["distractors"]
    sol_spec = {"name": "WAT", "edges": [], "residues": [["WX", 1, ["W1"]]], "coords": [[0.0, 0.0, 0.0]]}
    layout = [("sp", k) for k in seq]
    if solvent and case["solvent_in_system"]:
        layout.insert(len(layout) // 2, ("sol", None))
        layout.append(("sol", None))
    for kind, k in layout:
        spec = sol_spec if kind == "sol" else case["species"][k]["start"]
        resid += 1
        shift = np.round(rng.uniform(0.5, 8, 3), 3)
        for i, an in enumerate(spec["residues"][0][2]):
            xyz = np.round(np.array(spec["coords"][i]) + shift, 3)
            records.append((resid, spec["residues"][0][0], an, len(records) + 1) + tuple(float(c) for c in xyz))
    # the input name may contain further dots (temperatures, part numbers, version tags)
    sysname = ["system.gro", "npt_298.15K.gro", "confout.part0002.gro", "system.v2.final.gro"][case["seed"] % 4]
    system = os.path.join(inputs, sysname)
    indep.write_gro(system, "generated CG system", records, [10.0, 10.0, 10.0])

    def write_itp(path, spec):
        with open(path, "w") as f:
            f.write(indep.itp_text(spec["name"], [(an, rn, ri) for rn, ri, names in spec["residues"] for an in names],
                                   [tuple(e) for e in spec["edges"]]))
    triples = {}
    for k, sp in enumerate(case["species"]):
        nm = spn(case, k)
        dot = ".v%d" % k if case["seed"] % 2 else ""          # file names may contain further dots
        cg = os.path.join(inputs, "%s%s_CG.itp" % (nm, dot))
        ag = os.path.join(inputs, "%s%s_AA.gro" % (nm, dot))
        ai = os.path.join(inputs, "%s%s_AA.itp" % (nm, dot))
        write_itp(cg, sp["start"])
        # with explicit triples the two resolutions need not use the same molecule name
        write_itp(ai, dict(sp["end"], name=nm + "_AA") if rename_end and k % 2 == 0 else sp["end"])
        indep.write_gro(ag, "end molecule " + nm, spec_records(sp["end"]), [5.0, 5.0, 5.0])
        triples[nm] = [cg, ag, ai]
    listing = [p for t in triples.values() for p in t]
    candidates = {nm: {"top_CG": [t[0]], "coor_AA": [t[1]], "top_AA": [t[2]]} for nm, t in triples.items()}
    incomplete = set()
    ndis = 0
    shared = None
    for dname in case["distractors"]:
        ndis += 1
        if dname == "foreign":
            for fn in ("notes.txt", "run.mdp"):
                p = os.path.join(inputs, fn)
                with open(p, "w") as f:
                    f.write("not a molecule\n")
                listing.append(p)
        elif dname == "absent":
            spec = {"name": "ABSENT", "edges": [[0, 1]], "residues": [["ABS", 1, ["Q1", "Q2"]]],
                    "coords": [[0, 0, 0], [0.2, 0, 0]]}
            big = {"name": "ABSENT", "edges": [[0, 1], [1, 2]], "residues": [["ABL", 1, ["Q1", "Q2", "Q3"]]],
                   "coords": [[0, 0, 0], [0.2, 0, 0], [0.3, 0.1, 0]]}
            for fn, sp_, isgro in (("ABSENT_CG.itp", spec, False), ("ABSENT_AA.itp", big, False), ("ABSENT_AA.gro", big, True)):
                p = os.path.join(inputs, fn)
                if isgro:
                    indep.write_gro(p, "absent", spec_records(sp_), [5.0, 5.0, 5.0])
                else:
                    write_itp(p, sp_)
                listing.append(p)
        elif dname == "solvent":
            p = os.path.join(inputs, "WAT_CG.itp")
            write_itp(p, sol_spec)
            listing.append(p)
        elif dname == "system-file":
            listing.append(system)
        elif dname == "copy-gro":
            nm = spn(case, case["dup_of"])
            p = os.path.join(inputs, "%s_AA_second.gro" % nm)
            indep.write_gro(p, "second copy", spec_records(case["species"][case["dup_of"]]["end"]), [6.0, 6.0, 6.0])
            listing.append(p)
            candidates[nm]["coor_AA"].append(p)
        elif dname == "custom-format":
            # the end coordinates of one species exist only in a coordinate format the user registered himself
            nm = spn(case, case["dup_of"])
            old_p = triples[nm][1]
            if old_p not in listing or not old_p.endswith(".gro"):
                continue
            new_p = old_p[:-4] + "." + CUSTOM_EXT
            os.rename(old_p, new_p)
            listing[listing.index(old_p)] = new_p
            triples[nm][1] = new_p
            candidates[nm]["coor_AA"] = [new_p if p == old_p else p for p in candidates[nm]["coor_AA"]]
        elif dname == "snapshots":
            # a folder of further coordinate snapshots of one species handed over with the other candidates (--auto *),
            # more of them than the process may hold open at once (the driver lowers its open-file limit)
            nm = spn(case, case["dup_of"])
            sub = os.path.join(inputs, "snapshots")
            os.makedirs(sub, exist_ok=True)
            for k in range(56):
                p = os.path.join(sub, "%s_AA_t%03d.gro" % (nm, k))
                indep.write_gro(p, "snapshot %d" % k, spec_records(case["species"][case["dup_of"]]["end"]), [6.0, 6.0, 6.0])
                listing.append(p)
                candidates[nm]["coor_AA"].append(p)
        elif dname == "copy-itp":
            nm = spn(case, case["dup_of"])
            p = os.path.join(inputs, "%s_AA_second.itp" % nm)
            write_itp(p, case["species"][case["dup_of"]]["end"])
            listing.append(p)
            candidates[nm]["top_AA"].append(p)
        elif dname in ("same-basename-gro", "same-basename-itp"):
            # a second valid candidate with the SAME file name in another folder
            nm = spn(case, case["dup_of"])
            sub = os.path.join(inputs, "other_conf")
            os.makedirs(sub, exist_ok=True)
            if dname.endswith("gro"):
                p = os.path.join(sub, "%s_AA.gro" % nm)
                indep.write_gro(p, "other folder", spec_records(case["species"][case["dup_of"]]["end"]), [7.0, 7.0, 7.0])
                candidates[nm]["coor_AA"].append(p)
            else:
                p = os.path.join(sub, "%s_AA.itp" % nm)
                write_itp(p, case["species"][case["dup_of"]]["end"])
                candidates[nm]["top_AA"].append(p)
            listing.append(p)
        elif dname == "lookalike":
            # a topology of another molecule type with the residue signature (name, atom count) of a real species but
            # other atom names, in a file that sorts before the genuine start topology: it cannot be placed in the
            # system and must not stop the genuine one from being found
            k = case["dup_of"]
            st_ = case["species"][k]["start"]
            fake = dict(st_, name="LOOK%d" % k,
                        residues=[[rn, ri, ["Z%d" % (i + 1) for i in range(len(names))]] for rn, ri, names in st_["residues"]])
            gen_cg = triples[spn(case, k)][0]
            p = gen_cg[:-len("_CG.itp")] + "_CG-draft.itp"
            write_itp(p, fake)
            listing.append(p)
        elif dname == "shared-end-gro":
            # one coordinate file holding one end-resolution molecule of every species: a valid candidate for each of them
            recs = []
            for k, sp in enumerate(case["species"]):
                for r in spec_records(sp["end"], first_atomid=len(recs) + 1, resids=[k + 1]):
                    recs.append(r)
            p = os.path.join(inputs, ("AA_all.gro" if case["seed"] % 3 else "zz_all_AA.gro"))
            indep.write_gro(p, "all end molecules", recs, [9.0, 9.0, 9.0])
            listing.append(p)
            shared = p
            for nm in candidates:
                candidates[nm]["coor_AA"].append(p)
        elif dname == "missing-coords":
            nm = spn(case, case["missing_of"])
            if ("copy-gro" in case["distractors"] or "same-basename-gro" in case["distractors"]
                    or "snapshots" in case["distractors"]) and case["dup_of"] == case["missing_of"]:
                continue
            listing.remove(triples[nm][1])
            incomplete.add(nm)
    if shared:
        incomplete.clear()          # a species without dedicated end coordinates can still use the shared file
        for k in case.get("shared_only", []):
            ded = triples[spn(case, k)][1]
            if ded in listing:
                listing.remove(ded)
        for nm in candidates:
            candidates[nm]["coor_AA"] = [p for p in candidates[nm]["coor_AA"] if p in listing]
    return {"dir": d, "inputs": inputs, "system": system, "triples": triples, "listing": listing,
            "candidates": candidates, "incomplete": incomplete, "ndistractors": ndis}


def listing_orders(listing, n, seed):
    rng = np.random.default_rng(seed)
    orders = [list(listing), list(reversed(listing)), sorted(listing)]
    if len(listing) <= 5:
        orders = [list(p) for p in itertools.permutations(listing)][:24]
    while len(orders) < n:
        orders.append([listing[i] for i in rng.permutation(len(listing))])
    return orders[:max(n, 3)] if len(listing) > 5 else orders


# ------------------------------------------------------------------ (b) discovery in fresh interpreters
def run_driver(jobs, hashseed):
    jp = env.fresh_path(".json")
    with open(jp, "w") as f:
        json.dump(jobs, f)
    envv = dict(os.environ)
    if hashseed == "random":
        envv.pop("PYTHONHASHSEED", None)
        envv["PYTHONHASHSEED"] = "random"
    else:
        envv["PYTHONHASHSEED"] = hashseed
    proc = subprocess.run([sys.executable, os.path.join(env.VERIF_ROOT, "drivers", "discover.py"), env.REPO, jp],
                          capture_output=True, text=True, env=envv, timeout=600)
    if proc.returncode != 0:
        raise HarnessError("discovery driver failed: %s" % proc.stderr[-800:])
    return json.loads(proc.stdout)["results"]


def check_discovery(case):
    D = build_directory(case)
    known_names = [spn(case, k) for k in case["known"] if spn(case, k) not in D["incomplete"]]
    sp_mol, sp_auto = case.get("spelling", ["abs", "abs"])
    cwd = D["dir"]
    known = [[spell(p, sp_mol, cwd) for p in D["triples"][nm]] for nm in known_names]
    orders = listing_orders(D["listing"], case["orders"], case["seed"])
    nofile = 48 if "snapshots" in case["distractors"] else None
    jobs = [{"ref": D["system"], "files": [spell(p, sp_auto, cwd) for p in o], "known": known, "cwd": cwd, "nofile": nofile}
            for o in orders]
    # the command line itself (argument handling around the discovery), pipeline replaced by a recorder
    complete_all = [nm for nm in sorted(D["triples"]) if nm not in D["incomplete"]]
    excl = [spn(case, k) for k in case["exclude"] if spn(case, k) not in known_names]
    argv = [D["system"]]
    for t in known:
        argv += ["--mol"] + t
    argv += ["--auto"] + jobs[0]["files"]
    if excl:
        argv += ["--exclude"] + excl
    argv += ["-o", os.path.join(D["dir"], "never_written.gro")]
    main_job = {"main": argv, "cwd": cwd, "nofile": nofile}
    main_seen = {}
    outcomes = {}
    key_orders = {}
    for hs in hashseeds():
        results = run_driver(jobs + [main_job], hs)
        mres = results.pop()
        main_seen.setdefault(json.dumps(mres, sort_keys=True), []).append(hs)
        for oi, (o, res) in enumerate(zip(orders, results)):
            order = res.pop("order", None)
            key = json.dumps(res, sort_keys=True)
            outcomes.setdefault(key, []).append((hs, [os.path.basename(p) for p in o]))
            key_orders.setdefault(oi, {}).setdefault(json.dumps(order), []).append(hs)
    if len(main_seen) > 1:
        desc = ["%s -> %s" % (hss, [[os.path.basename(s[0]) for s in c] for c in json.loads(k).get("calls", [])] or json.loads(k).get("error"))
                for k, hss in main_seen.items()]
        raise PropertyViolation("cli-hashseed", "the species handed to the mapping pipeline by the command line (--auto%s) "
                                "differ, in content or order, between hash seeds: %s"
                                % (" --exclude " + " ".join(excl) if excl else "", " | ".join(desc)), cls="cli-hashseed")
    first = json.loads(next(iter(outcomes)))
    for oi, variants in key_orders.items():
        if len(variants) > 1:
            raise PropertyViolation("discovery-order-hashseed", "for one and the same file listing the species are "
                                    "returned in different orders under different hash seeds: %r (this order is the "
                                    "order in which the species are aligned)" % (variants,),
                                    cls="discovery-order-hashseed")
    if len(outcomes) > 1:
        desc = []
        for key, who in list(outcomes.items())[:3]:
            r = json.loads(key)
            desc.append("%s -> %s" % (who[0], r.get("error") or {k: {a: os.path.basename(b) for a, b in v.items()}
                                                                  for k, v in r["result"].items()}))
        raise PropertyViolation("discovery-deterministic", "sort_molecules gives %d different answers over hash seeds "
                                "and listing orders: %s" % (len(outcomes), " | ".join(desc)),
                                cls="discovery-deterministic")
    if not first["ok"]:
        raise PropertyViolation("discovery-error", "sort_molecules raised %s (distractors %r)"
                                % (first["error"], case["distractors"]), cls="discovery-error:" + first["error"].split(":")[0])
    result = {nm: {slot: canon_path(p, cwd) for slot, p in got.items()} for nm, got in first["result"].items()}
    discoverable = [nm for nm in D["triples"] if nm not in known_names]
    for nm in discoverable:
        got = result.get(nm, {})
        cand = D["candidates"][nm]
        if nm in D["incomplete"]:
            if len(got) == 3:
                raise PropertyViolation("discovery-incomplete", "species %s has no end coordinates among the candidates "
                                        "but was assigned %r" % (nm, got))
            continue
        if len(got) != 3:
            raise PropertyViolation("discovery-missed", "species %s not (completely) discovered: %r (distractors %r)"
                                    % (nm, {k: os.path.basename(v) for k, v in got.items()}, case["distractors"]))
        for slot in ("top_CG", "coor_AA", "top_AA"):
            if got[slot] not in cand[slot]:
                raise PropertyViolation("discovery-wrong-file", "species %s: %s = %s, valid candidates %r"
                                        % (nm, slot, os.path.basename(got[slot]),
                                           [os.path.basename(p) for p in cand[slot]]))
    for nm, got in result.items():
        if nm in known_names and len(got) == 3:
            raise PropertyViolation("discovery-readded", "species %s was given explicitly but discovered again" % nm)
        if nm not in D["triples"] and len(got) == 3:
            raise PropertyViolation("discovery-foreign", "a species absent from the candidates/system was discovered: %s" % nm)
    nt = len([nm for nm in discoverable if nm not in D["incomplete"]]) >= 2 and D["ndistractors"] >= 2
    return {"nontrivial": nt,
            "classes": ["distractors:%d" % min(D["ndistractors"], 3), "known:%d" % len(known_names),
                        "spelling:same" if sp_mol == sp_auto else "spelling:differs"] +
                       ["d:" + x for x in case["distractors"]],
            "sample": {"listing": [os.path.basename(p) for p in D["listing"]], "known": known_names,
                       "result": {k: {a: os.path.basename(b) for a, b in v.items()} for k, v in result.items()},
                       "hash_seeds": hashseeds(), "orders": len(orders)}}


# ------------------------------------------------------------------ (a) CLI vs library workflow
def library_workflow(system, species, scale, out, seed):
    np.random.seed(seed)
    from gaddlemaps.parsers import read_topology
    ends = {}
    for cg, ag, ai in species:
        name = read_topology(cg)[0]
        ends[name] = Molecule.from_files(ag, ai)
    man = Manager.from_files(system, *[s[0] for s in species])
    for name, mol in ends.items():
        man.molecule_correspondence[name].end = mol
    with step_cap():
        man.align_molecules()
    man.calculate_exchange_maps(scale_factor=scale)
    man.extrapolate_system(out)


def run_main(argv, seed, cwd=None):
    old_argv, old_cwd = sys.argv, os.getcwd()
    sys.argv = ["gaddlemaps"] + argv
    try:
        if cwd:
            os.chdir(cwd)
        np.random.seed(seed)
        with env.quiet(), step_cap():
            _cli.main()
    finally:
        sys.argv = old_argv
        os.chdir(old_cwd)


def check_cli(case):
    D = build_directory(case, rename_end=case["mode"] == "mol" and case["seed"] % 3 == 0)
    complete = [nm for nm in sorted(D["triples"]) if nm not in D["incomplete"]]
    mode = case["mode"]
    explicit = [nm for nm in (spn(case, k) for k in case["known"]) if nm in complete]
    if mode == "mol" or not explicit and mode == "mixed":
        explicit = complete if mode == "mol" else explicit
    auto = mode in ("auto", "mixed")
    if mode == "auto":
        explicit = []
    exclude = [spn(case, k) for k in case["exclude"]] if auto else []
    seed = case["seed"] % (2 ** 32)
    argv_ref = D["system"]
    cwd = None
    workdir = os.path.join(D["dir"], "work")
    os.makedirs(workdir)
    if case["outmode"] == "default":
        out_args, expect_out = [], os.path.join(D["inputs"], "mapped_" + os.path.basename(D["system"]))
    elif case["outmode"] == "default-symlink":
        # the input is a symbolic link in another folder: "beside the input" is beside the link, under the link's name
        argv_ref = os.path.join(workdir, "start.gro")
        os.symlink(D["system"], argv_ref)
        out_args, expect_out = [], os.path.join(workdir, "mapped_start.gro")
    elif case["outmode"] == "absolute":
        p = os.path.join(D["dir"], "out_abs.gro")
        out_args, expect_out = ["-o", p], p
    elif case["outmode"] == "relative":
        cwd = workdir
        out_args, expect_out = ["-o", "result.gro"], os.path.join(workdir, "result.gro")
    else:
        cwd = D["dir"]
        argv_ref = os.path.join("inputs", os.path.basename(D["system"]))
        out_args, expect_out = ["--outfile", os.path.join("work", "res.gro")], os.path.join(workdir, "res.gro")
    sp_mol, sp_auto = case.get("spelling", ["abs", "abs"])
    if cwd is None and (sp_mol in ("rel", "dot") or sp_auto in ("rel", "dot")):
        cwd = D["dir"]
    argv = [argv_ref]
    for nm in explicit:
        argv += ["--mol"] + [spell(p, sp_mol, cwd) for p in D["triples"][nm]]
    if auto:
        argv += ["--auto"] + [spell(p, sp_auto, cwd) for p in D["listing"]]
        if exclude:
            argv += ["--exclude"] + exclude
    argv += ["--scale", repr(case["scale"])] + out_args
    recorded = []
    orig = _cli.auto_map

    def spy(ref, species, scale=0.5, outfile=None):
        recorded.append([list(s) for s in species])
        return orig(ref, species, scale, outfile=outfile)
    old_steps = Alignment.STEPS_FACTOR
    Alignment.STEPS_FACTOR = 4
    _cli.auto_map = spy
    label = "mode %s, out %s, explicit %r, exclude %r, distractors %r" % (mode, case["outmode"], explicit, exclude,
                                                                         case["distractors"])
    try:
        before = set(os.listdir(D["inputs"])) | set(os.listdir(workdir)) | set(os.listdir(D["dir"]))
        expect_none = auto and not explicit and all(nm in exclude for nm in complete)
        try:
            run_main(argv, seed, cwd)
        except BaseException as exc:      # noqa: BLE001
            if isinstance(exc, (KeyboardInterrupt, MemoryError, Discard)):
                raise
            if not recorded or not recorded[0]:
                if not explicit and (not auto or all(nm in exclude for nm in complete)):
                    return {"nontrivial": False, "classes": ["nothing-to-map"]}
            raise PropertyViolation("cli-runs", "%s: the command line tool raised %s: %s"
                                    % (label, type(exc).__name__, str(exc)[:300]),
                                    cls="cli-runs:" + type(exc).__name__)
        if not recorded:
            raise HarnessError("auto_map is no longer resolved through gaddlemaps._cli")
        species = recorded[0]
        if not os.path.exists(expect_out):
            found = []
            for root, _, fs in os.walk(D["dir"]):
                found += [os.path.join(root, f) for f in fs if f not in before and f.endswith(".gro")
                          and "mapped" in f or f in ("result.gro", "res.gro", "out_abs.gro")]
            raise PropertyViolation("output-path", "%s: nothing was written to %s; new files: %r"
                                    % (label, expect_out, [os.path.relpath(p, D["dir"]) for p in found]),
                                    cls="output-path:" + case["outmode"])
        ref_out = os.path.join(D["dir"], "library_out.gro")
        species_abs = [[canon_path(p, cwd or D["dir"]) for p in s] for s in species]
        lib("library-workflow", library_workflow, D["system"], species_abs, case["scale"], ref_out, seed)
        with open(expect_out, "rb") as f1, open(ref_out, "rb") as f2:
            a, b = f1.read(), f2.read()
        if a != b:
            la, lb = a.split(b"\n"), b.split(b"\n")
            k = next((i for i, (x, y) in enumerate(zip(la, lb)) if x != y), min(len(la), len(lb)))
            raise PropertyViolation("cli-equals-library", "%s: output differs from the library workflow at line %d: "
                                    "%r vs %r (scale %r)" % (label, k + 1, la[k:k + 1], lb[k:k + 1], case["scale"]),
                                    cls="cli-equals-library")
    finally:
        _cli.auto_map = orig
        Alignment.STEPS_FACTOR = old_steps
    return {"nontrivial": len(species) >= 2 and D["ndistractors"] >= 2,
            "classes": ["mode:" + mode, "out:" + case["outmode"], "scale:%s" % ("0.5" if case["scale"] == 0.5 else "other"),
                        "spelling:same" if sp_mol == sp_auto or not (explicit and auto) else "spelling:differs",
                        "end-name:differs" if case["mode"] == "mol" and case["seed"] % 3 == 0 else "end-name:same"],
            "sample": {"argv": [os.path.basename(a) if os.sep in a else a for a in argv], "species_mapped": len(species)}}


# ------------------------------------------------------------------ (c) selection: --mol / --auto / --exclude
def check_selection(case):
    D = build_directory(case)
    complete = [nm for nm in sorted(D["triples"]) if nm not in D["incomplete"]]
    explicit = [nm for nm in (spn(case, k) for k in case["known"]) if nm in complete]
    exclude = [spn(case, k) for k in case["exclude"]]
    sp_mol, sp_auto = case.get("spelling", ["abs", "abs"])
    cwd = D["dir"]
    argv = [D["system"]]
    for nm in explicit:
        argv += ["--mol"] + [spell(p, sp_mol, cwd) for p in D["triples"][nm]]
    argv += ["--auto"] + [spell(p, sp_auto, cwd) for p in D["listing"]]
    if exclude:
        argv += ["--exclude"] + exclude
    argv += ["--scale", "0.25", "-o", os.path.join(D["dir"], "x.gro")]
    calls = []
    orig = _cli.auto_map
    _cli.auto_map = lambda ref, species, scale=0.5, outfile=None: calls.append((ref, [list(s) for s in species], scale, outfile))
    try:
        try:
            run_main(argv, 1, cwd)
        except BaseException as exc:      # noqa: BLE001
            raise PropertyViolation("cli-runs", "argument handling raised %s: %s (distractors %r)"
                                    % (type(exc).__name__, str(exc)[:300], case["distractors"]),
                                    cls="cli-runs:" + type(exc).__name__)
    finally:
        _cli.auto_map = orig
    if len(calls) != 1:
        raise PropertyViolation("pipeline-once", "the mapping pipeline was started %d times" % len(calls))
    ref, species, scale, outfile = calls[0]
    if ref != D["system"] or scale != 0.25 or outfile != os.path.join(D["dir"], "x.gro"):
        raise PropertyViolation("arguments-forwarded", "reference/scale/outfile reach the pipeline as %r %r %r"
                                % (ref, scale, outfile))
    species = [[canon_path(p, cwd) for p in s] for s in species]
    by_cg = {}
    for s in species:
        by_cg.setdefault(s[0], []).append(s)
    for nm in explicit:
        t = D["triples"][nm]
        if by_cg.get(t[0]) != [t]:
            raise PropertyViolation("explicit-once", "explicit species %s reaches the pipeline as %r" % (nm, by_cg.get(t[0])))
    for nm in complete:
        t = D["triples"][nm]
        got = by_cg.get(t[0], [])
        if nm in explicit:
            continue
        if nm in exclude:
            if got:
                raise PropertyViolation("excluded-omitted", "excluded species %s is mapped: %r" % (nm, got))
            continue
        if len(got) != 1:
            raise PropertyViolation("auto-once", "discoverable species %s reaches the pipeline %d times (distractors %r)"
                                    % (nm, len(got), case["distractors"]))
        c = D["candidates"][nm]
        if got[0][1] not in c["coor_AA"] or got[0][2] not in c["top_AA"]:
            raise PropertyViolation("auto-triple", "species %s mapped with %r" % (nm, [os.path.basename(p) for p in got[0]]))
    extra = [s for s in species if s[0] not in [D["triples"][nm][0] for nm in complete]]
    if extra:
        raise PropertyViolation("auto-foreign", "species outside the complete ones are mapped: %r"
                                % [[os.path.basename(p) for p in s] for s in extra])
    return {"nontrivial": len(complete) - len(explicit) >= 2 and D["ndistractors"] >= 2,
            "classes": ["explicit:%d" % len(explicit), "exclude:%d" % len(exclude),
                        "spelling:same" if sp_mol == sp_auto or not explicit else "spelling:differs"] +
                       ["d:" + x for x in case["distractors"]]}


# ------------------------------------------------------------------ shipped BMIM/BF4 set
def shipped_cases(tier, seed):
    return [{"scale": 0.5, "auto": False, "seed": int(seed)}, {"scale": 0.7, "auto": True, "seed": int(seed) + 1}], True


def check_shipped(case):
    import shutil
    d = env.fresh_dir()
    names = ["system_bmimbf4_cg.gro", "BMIM_CG.itp", "BMIM_AA.gro", "BMIM_AA.itp", "BF4_CG.itp", "BF4_AA.gro", "BF4_AA.itp"]
    for n in names:
        shutil.copy(os.path.join(env.DATA, n), os.path.join(d, n))
    p = lambda n: os.path.join(d, n)    # noqa: E731
    triples = [[p("BMIM_CG.itp"), p("BMIM_AA.gro"), p("BMIM_AA.itp")], [p("BF4_CG.itp"), p("BF4_AA.gro"), p("BF4_AA.itp")]]
    argv = [p(names[0])]
    if case["auto"]:
        argv += ["--auto"] + [p(n) for n in names[1:]] + [p(names[0])]
    else:
        for t in triples:
            argv += ["--mol"] + t
    argv += ["--scale", repr(case["scale"])]
    recorded = []
    orig = _cli.auto_map

    def spy(ref, species, scale=0.5, outfile=None):
        recorded.append([list(s) for s in species])
        return orig(ref, species, scale, outfile=outfile)
    old = Alignment.STEPS_FACTOR
    Alignment.STEPS_FACTOR = 10
    _cli.auto_map = spy
    try:
        lib("cli", run_main, argv, case["seed"])
        out = p("mapped_" + names[0])
        if not os.path.exists(out):
            raise PropertyViolation("output-path", "default output %s not written" % out)
        if sorted(map(tuple, recorded[0])) != sorted(map(tuple, triples)):
            raise PropertyViolation("auto-triple", "shipped files: species reach the pipeline as %r" % recorded[0])
        ref_out = p("library.gro")
        lib("library-workflow", library_workflow, p(names[0]), recorded[0], case["scale"], ref_out, case["seed"])
        with open(out, "rb") as f1, open(ref_out, "rb") as f2:
            if f1.read() != f2.read():
                raise PropertyViolation("cli-equals-library", "shipped BMIM/BF4: output differs from the library workflow")
    finally:
        _cli.auto_map = orig
        Alignment.STEPS_FACTOR = old
    return {"nontrivial": True, "classes": ["shipped"], "sample": case}


SUBCHECKS = [
    Sub("cli", check_cli, strategy=lambda tier: directory_case(), quick=120, thorough=2500,
        min_share={"mode:auto": 0.1, "out:relative": 0.1}),
    Sub("discovery", check_discovery, strategy=lambda tier: directory_case(), quick=32, thorough=640, shrink=False,
        note="not shrunk: every execution starts several interpreters"),
    Sub("selection", check_selection, strategy=lambda tier: directory_case(), quick=200, thorough=4000),
    Sub("shipped", check_shipped, enumerate=shipped_cases, note="shipped BMIM/BF4 files: --mol and --auto"),
]
