"""C19  Periodic distance is the minimum-image distance."""
import numpy as np
from hypothesis import strategies as st

from vlib import env, gen, indep  # noqa: F401
from vlib.build import lib
from vlib.report import PropertyViolation
from vlib.runner import Sub

from gaddlemaps.components import AtomGro, Residue

PROPERTY = "C19"
LEVEL = "exploration"
RULE = ("pairs (residue of 1..6 atoms, residue or point) whose centre separation is built from a fractional "
        "separation kept >= 2e-6 away from +-1/2 on every axis (a quarter of the cases within 1e-4 of it) plus integer cell offsets in [-4,4] (inside and far "
        "outside the box); orthorhombic boxes with edges 0.5..20 nm (cubic, rectangular, given as matrix; a quarter with "
        "whole-number vectors, handed over as float64, integer dtype, Fortran-ordered or read-only array) and "
        "triclinic boxes (lower-triangular, off-diagonal <= 0.4 x diagonal); lattice shifts in [-3,3]^3. "
        "Non-trivial = some box edge != 1 and the separation exceeds half a box edge on some axis. "
        "Distinct = sha1 of the case JSON.")
ASSUMPTIONS = [
    "separations within 2e-6 of the box edge (fractional) of an exact half box are not generated (two images tie "
    "there; the statement excludes 1e-6 nm, boxes are >= 0.5 nm); a quarter of the cases sits 2e-6 .. 1e-4 from it",
    "for triclinic boxes only symmetry, lattice-shift invariance and agreement of the inverse-box flag are required "
    "(the statement's minimum-image equality is for orthorhombic boxes)",
]


def _residue(center, offsets, resid=1):
    atoms = []
    pts = np.asarray(center)[None, :] + np.asarray(offsets)
    for k, p in enumerate(pts):
        atoms.append(AtomGro([resid, "RES", "C%d" % (k + 1), k + 1, float(p[0]), float(p[1]), float(p[2])]))
    return Residue(atoms)


@st.composite
def case_strategy(draw):
    rng = np.random.default_rng(draw(gen.SEEDS))
    bk = draw(st.sampled_from(["cubic", "rect", "rect", "unit", "triclinic", "triclinic"]))
    integral = draw(st.integers(0, 3)) == 0            # whole-number box vectors (may be handed over with an integer dtype)
    if bk == "unit":
        edges = np.ones(3)
    elif bk == "cubic":
        edges = np.ones(3) * (float(rng.integers(1, 21)) if integral else rng.uniform(0.5, 20))
    else:
        edges = rng.integers(1, 21, 3).astype(float) if integral else rng.uniform(0.5, 20, 3)
    box = np.diag(edges)
    if bk == "triclinic":
        box[1, 0] = rng.uniform(-0.4, 0.4) * edges[0]
        box[2, 0] = rng.uniform(-0.4, 0.4) * edges[0]
        box[2, 1] = rng.uniform(-0.4, 0.4) * edges[1]
        shape = int(rng.integers(0, 4))
        if shape == 2:
            box = box.T.copy()                      # all the skew above the diagonal, zeros below
        elif shape == 3:
            box[0, 1] = rng.uniform(-0.25, 0.25) * edges[1]      # skew on both sides (any non-singular box)
            box[0, 2] = rng.uniform(-0.25, 0.25) * edges[2]
            box[1, 2] = rng.uniform(-0.25, 0.25) * edges[2]
        if integral:
            box = np.trunc(box)
        if abs(np.linalg.det(box)) < 0.2 * float(np.prod(edges)):
            box = np.diag(edges) + np.tril(box, -1)
    # fractional separation away from the tie at +-1/2
    frac = rng.uniform(-0.5 + 1e-4, 0.5 - 1e-4, 3)
    if draw(st.booleans()):
        ax = int(rng.integers(0, 3))
        frac[ax] = rng.choice([-1, 1]) * rng.uniform(0.4, 0.5 - 1e-4)
    near_half = draw(st.integers(0, 3)) == 0
    if near_half:
        # just outside the excluded tie zone (1e-6 nm from half a box edge): 2e-6 .. 1e-4 of the edge away from it
        for ax in range(3):
            if rng.random() < 0.6:
                frac[ax] = rng.choice([-1, 1]) * (0.5 - 10.0 ** rng.uniform(np.log10(2e-6), -4))
    cells = rng.integers(-4, 5, 3) if draw(st.booleans()) else np.zeros(3, int)
    c1 = rng.uniform(-1, 1, 3) @ box + (rng.integers(-3, 4, 3) @ box if draw(st.booleans()) else 0)
    c2 = c1 + (frac + cells) @ box
    n1 = draw(st.integers(1, 6))
    n2 = draw(st.integers(0, 6))           # 0 -> the second argument is a bare point
    off1 = rng.normal(0, 0.2, (n1, 3))
    off1 -= off1.mean(axis=0)
    off2 = rng.normal(0, 0.2, (max(n2, 1), 3))
    off2 -= off2.mean(axis=0)
    shift1 = rng.integers(-3, 4, 3)
    shift2 = rng.integers(-3, 4, 3)
    return {"box_kind": bk, "box": box.tolist(), "c1": c1.tolist(), "c2": c2.tolist(),
            "off1": off1.tolist(), "off2": off2.tolist(), "point": n2 == 0,
            "frac": frac.tolist(), "cells": cells.tolist(),
            "shift1": shift1.tolist(), "shift2": shift2.tolist(),
            "box_repr": draw(st.sampled_from(["float", "float", "int", "F", "readonly"])), "near_half": near_half,
            "reuse_box": draw(st.integers(0, 3)) == 0}


def check(case):
    box = np.array(case["box"], float)
    ortho = case["box_kind"] != "triclinic"
    brepr = case.get("box_repr", "float")
    if brepr == "int" and not np.array_equal(box, np.round(box)):
        brepr = "float"

    def box_arg():
        """The box matrix as the caller may hold it: float64, an integer dtype (whole-number boxes), Fortran order, read-only."""
        if brepr == "int":
            return box.astype(np.int64)
        if brepr == "F":
            return np.asfortranarray(box.copy())
        if brepr == "readonly":
            b = box.copy()
            b.setflags(write=False)
            return b
        return box.copy()

    r1 = _residue(case["c1"], case["off1"])
    other_c = np.array(case["c2"], float)
    r2 = other_c.copy() if case["point"] else _residue(case["c2"], case["off2"], resid=2)
    g1 = np.array(r1.geometric_center, float)
    g2 = other_c if case["point"] else np.array(r2.geometric_center, float)
    sep = g2 - g1
    plain = float(np.linalg.norm(sep))
    tol = 1e-9 * max(1.0, plain)

    if case.get("reuse_box"):
        # one box array (and one inverse-box array), updated in place between calls - e.g. a barostat rescaling the cell
        held = box_arg() if brepr not in ("readonly", "int") else box.copy()
        held_inv = np.linalg.inv(box)
        real, real_inv = held.copy(), held_inv.copy()
        held *= 1.37
        lib("distance-prior", r1.distance_to, r2, box_vects=held)
        held[...] = real
        d_held = float(lib("distance", r1.distance_to, r2, box_vects=held))
        held_inv /= 1.37
        lib("distance-prior", r1.distance_to, r2, box_vects=held_inv, inv=True)
        held_inv[...] = real_inv
        d_held_inv = float(lib("distance-inv", r1.distance_to, r2, box_vects=held_inv, inv=True))
    d = float(lib("distance", r1.distance_to, r2, box_vects=box_arg()))
    if case.get("reuse_box") and not (abs(d_held - d) <= tol and abs(d_held_inv - d) <= tol):
        raise PropertyViolation("box-object-reused", "a box array that was rescaled in place and restored gives %.12g "
                                "(inverse: %.12g), an equal fresh array %.12g" % (d_held, d_held_inv, d))
    d_plain = float(lib("distance", r1.distance_to, r2))
    if not abs(d_plain - plain) <= tol:
        raise PropertyViolation("non-periodic", "distance without box %r != %r" % (d_plain, plain))
    if not np.isfinite(d) or d < 0:
        raise PropertyViolation("finite", "periodic distance %r" % d)
    if ortho:
        edges = np.diag(box)
        ref = indep.min_image_orthorhombic(sep, edges)
        if not abs(d - ref) <= tol:
            raise PropertyViolation("minimum-image", "box edges %r, separation %r: periodic distance %.12g, "
                                    "minimum over images %.12g" % (edges.tolist(), sep.tolist(), d, ref),
                                    cls="minimum-image:" + ("unit" if case["box_kind"] == "unit" else "non-unit"))
        if not d <= plain + tol:
            raise PropertyViolation("never-exceeds", "periodic distance %.12g > non-periodic %.12g" % (d, plain))
    # inverse flag
    if case["point"]:
        d_inv = float(lib("distance-inv", r1.distance_to, r2, np.linalg.inv(box), True))        # flag given positionally
    else:
        d_inv = float(lib("distance-inv", r1.distance_to, r2, box_vects=np.linalg.inv(box), inv=True))
    if not abs(d_inv - d) <= tol:
        raise PropertyViolation("inverse-flag", "inv=True gives %.12g, box gives %.12g (box %r)" % (d_inv, d, case["box"]))
    # symmetry
    if not case["point"]:
        d_sym = float(lib("distance-sym", r2.distance_to, r1, box_vects=box_arg()))
        if not abs(d_sym - d) <= tol:
            raise PropertyViolation("symmetric", "d(a,b)=%.12g, d(b,a)=%.12g" % (d, d_sym))
    d_pt = float(lib("distance-point", r1.distance_to, g2.copy(), box_vects=box_arg()))
    if not abs(d_pt - d) <= tol:
        raise PropertyViolation("point-vs-residue", "distance to the centre as a point %.12g != to the residue %.12g" % (d_pt, d))
    # lattice shifts of either argument
    s1 = np.array(case["shift1"]) @ box
    s2 = np.array(case["shift2"]) @ box
    r1s = _residue(np.array(case["c1"]) + s1, case["off1"])
    r2s = (other_c + s2) if case["point"] else _residue(other_c + s2, case["off2"], resid=2)
    tol_s = 1e-9 * max(1.0, plain, float(np.linalg.norm(s1)), float(np.linalg.norm(s2)))
    for nm, a, b in (("first", r1s, r2), ("second", r1, r2s), ("both", r1s, r2s)):
        ds = float(lib("distance-shift", a.distance_to, b, box_vects=box_arg()))
        if not abs(ds - d) <= tol_s:
            raise PropertyViolation("lattice-shift", "shifting the %s argument by lattice vectors changes the distance "
                                    "%.12g -> %.12g (box %s)" % (nm, d, ds, case["box_kind"]),
                                    cls="lattice-shift:" + ("ortho" if ortho else "triclinic"))
    edges = np.diag(box)
    fracsep = np.abs(np.array(case["frac"]) + np.array(case["cells"]))
    nt = bool(np.any(np.abs(edges - 1) > 1e-9)) and bool(np.any(fracsep > 0.5))
    return {"nontrivial": nt, "classes": ["box:" + case["box_kind"], "point" if case["point"] else "residue",
                                          "far" if np.any(np.array(case["cells"]) != 0) else "inside",
                                          "box-repr:" + brepr, "near-half" if case.get("near_half") else "away-from-half"]}


SUBCHECKS = [
    Sub("distance", check, strategy=lambda tier: case_strategy(), quick=20000, thorough=1200000,
        min_share={"box:triclinic": 0.2, "box:rect": 0.2, "nontrivial": 0.3}),
]
