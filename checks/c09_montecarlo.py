"""C09  Monte-Carlo search: consistent energies, Metropolis rule, exact stop.

The loop is observed by wrapping the module-level names it resolves at call
time (Chi2Calculator, accept_metropolis, move_mol_atom in gaddlemaps._backend);
the recorded trace is replayed against a reference model of the loop."""
import math

import numpy as np
from hypothesis import strategies as st

from vlib import env, gen, indep  # noqa: F401
from vlib.build import lib, step_cap
from vlib.report import HarnessError, PropertyViolation
from vlib.runner import Sub

import gaddlemaps
import gaddlemaps._backend as backend

from checks import align_common as ac
from checks.c07_atom_move import bond_table, table_order

PROPERTY = "C09"
LEVEL = "exploration"
RULE = ("(trace) fixed set 2..30 atoms, mobile tree 1..12 atoms (input arrays in several memory layouts), restraint lists, every non-empty subset of deformation "
        "types, step budget 1..2000 (quick mostly <=150), numpy seed drawn by Hypothesis; every evaluation, acceptance "
        "call and atom move of the search is recorded and replayed against a reference model of the loop. (acceptance) "
        "accept_metropolis on generated energy pairs: 100000 (quick) / 400000 seeded draws per ratio, 6-sigma band around "
        "0.01*E_held/E_new, and E_new<=E_held always accepted. Non-trivial = the trace contains an accepted-worse "
        "proposal, a rejection and a counter reset after the counter was >0. Distinct = sha1 of the case JSON.")
ASSUMPTIONS = [
    "Python engine; energies are > 0 except for the generated class of perfectly coincident molecules (measure exactly 0.0 "
    "at the start), where a worse proposal has acceptance probability 0",
    "the loop resolves Chi2Calculator / accept_metropolis / move_mol_atom through gaddlemaps._backend at call time "
    "(if nothing is recorded the check exits 2 instead of judging code it did not observe)",
    "acceptance probabilities are tested to a 6-sigma band: a rule off by a few percent in probability is not detected",
]


@st.composite
def case_strategy(draw, tier):
    nf = draw(st.integers(2, 30))
    nm = draw(st.sampled_from([1, 2, 2] + list(range(3, 13))))          # a one-atom mobile molecule: only types 0 and 1 apply
    edges = draw(gen.graph_edges(nm, draw(st.sampled_from(["tree", "chain", "star"])))) if nm > 1 else []
    rng = np.random.default_rng(draw(gen.SEEDS))
    mob = gen.walk_geometry(nm, edges, rng, lo=0.15, hi=0.45)
    fixed = mob[rng.integers(0, nm, nf)] + rng.normal(0, 0.25, (nf, 3)) + rng.uniform(-0.5, 0.5, 3)
    restr = draw(ac.restraint_list(nf, nm, max_len=5))
    if draw(st.integers(0, 7)) == 0:
        restr = [[i, int(rng.integers(0, nm))] for i in range(nf)]        # every fixed atom restrained
    coincident = draw(st.integers(0, 9)) == 0
    if coincident:
        # perfect overlap from the start: every fixed atom sits exactly on a mobile atom (measure exactly 0.0) -
        # the search still has to run for exactly its budget
        pick = rng.integers(0, nm, nf)
        fixed = mob[pick].copy()
        restr = [[int(i), int(pick[i])] for i in range(nf)][:draw(st.integers(0, nf))]
    tiny = not coincident and draw(st.integers(0, 11)) == 0
    if tiny:
        # coordinates in small units (everything 1e-4 of the usual size): the overlap measure is of order 1e-8 and
        # below, new lowest measures differ from the previous one far below any printed precision
        mob = mob * 1e-4
        fixed = fixed * 1e-4
    deform = draw(ac.deformation_types(nm, allow_none=False))
    big = tier == "thorough" and draw(st.integers(0, 9)) == 0
    steps = draw(st.integers(150, 2000)) if big else draw(st.integers(1, 150))
    lengths = [float(np.linalg.norm(mob[a] - mob[b])) for a, b in edges]
    width = draw(st.sampled_from([0.1, 0.3, 1.0])) * (1e-4 if tiny else 1.0)
    if not coincident and draw(st.integers(0, 24)) == 0:
        # a slow search: the target is 15-25 nm away and is approached by translations of 2 pm, about half of which find a
        # new lowest measure - tens of thousands of steps, more than a thousand times the budget, before the budget of
        # consecutive non-improving steps is ever used up
        fixed = fixed[:3] + np.array([float(rng.uniform(15, 25)), 0.0, 0.0])
        deform, restr, steps, width = (0,), [], draw(st.integers(13, 18)), 0.002
    return {"fixed": fixed.tolist(), "mobile": mob.tolist(), "edges": edges, "lengths": lengths,
            "restr": restr, "deform": list(deform), "steps": steps,
            "sigma": draw(st.sampled_from([0.5, 0.2, 1.0])), "width": width,
            "seed": draw(gen.SEEDS), "coincident": coincident, "chained": draw(st.integers(0, 3)) == 0,
            "mem": [draw(st.sampled_from(gen.ARRAY_LAYOUTS)),
                    draw(st.sampled_from(gen.ARRAY_LAYOUTS + (["float32", "float32"] if tuple(deform) == (0,) else [])))]}


class Recorder:
    def __init__(self):
        self.events = []        # ("eval", array, value) | ("accept", e0, e1, decision) | ("atommove", inp, out)
        self.constructed = []

    def install(self):
        rec = self
        self.orig = (backend.Chi2Calculator, backend.accept_metropolis, backend.move_mol_atom)
        OrigCalc, orig_accept, orig_move = self.orig

        class Calc:
            def __init__(self, mol1, mol2, restrictions=None):
                self._inner = OrigCalc(mol1, mol2, restrictions)
                rec.constructed.append((np.array(mol1, float).copy(), np.array(mol2, float).copy(), restrictions))

            def __call__(self, mol2):
                val = self._inner(mol2)
                rec.events.append(("eval", np.array(mol2, float).copy(), float(val)))
                return val

        def accept(e0, e1, *a, **k):
            dec = orig_accept(e0, e1, *a, **k)
            rec.events.append(("accept", float(e0), float(e1), bool(dec)))
            if len(rec.events) > 1500000:
                from vlib.report import Discard
                raise Discard("step-cap")       # a search that rounding noise keeps alive: inconclusive (termination is not listed)
            return dec

        def move(pos, *a, **k):
            out = orig_move(pos, *a, **k)
            rec.events.append(("atommove", np.array(pos, float).copy(), np.array(out, float).copy()))
            return out
        backend.Chi2Calculator = Calc
        backend.accept_metropolis = accept
        backend.move_mol_atom = move

    def remove(self):
        backend.Chi2Calculator, backend.accept_metropolis, backend.move_mol_atom = self.orig


def explain_move(held, prop, deform, atommove, edges):
    """Which enabled move of the held configuration produces the proposal?"""
    d = prop - held
    if 0 in deform and np.abs(d - d[0]).max() <= 1e-9:
        return "translation"
    if 1 in deform:
        c0, c1 = held.mean(axis=0), prop.mean(axis=0)
        if np.abs(c0 - c1).max() <= 1e-9:
            d0 = indep.pair_distances(held)
            d1 = indep.pair_distances(prop)
            if np.abs(d0 - d1).max() <= 1e-9:
                return "rotation"
    if 2 in deform and atommove is not None:
        inp, out = atommove
        if np.array_equal(inp, held) and np.array_equal(out, prop):
            return "atom-move"
    return None


def check(case):
    fixed = np.array(case["fixed"], float)
    mob0 = np.array(case["mobile"], float)
    if case.get("mem", ["C", "C"])[1] == "float32":
        # single-precision coordinates (as trajectory readers deliver them); only for translation-only searches:
        # rotations and single-atom moves of a single-precision array are themselves only single-precision exact
        mob0 = mob0.astype(np.float32).astype(float)
    edges = [tuple(e) for e in case["edges"]]
    tab = bond_table(len(mob0), edges, case["lengths"], table_order(case))
    restr = [tuple(r) for r in case["restr"]]
    deform = tuple(case["deform"])
    budget = case["steps"]
    prior_obj = None
    if case.get("chained") and case.get("mem", ["C", "C"])[1] != "float32":
        # a previous search on the same shapes; its returned array OBJECT is the starting configuration of the judged one
        np.random.seed((case["seed"] + 17) % 2 ** 32)
        with step_cap():
            prior_obj = lib("prior-search", gaddlemaps.minimize_molecules, fixed.copy(), mob0.copy(), mob0.mean(axis=0),
                            case["sigma"], min(budget, 40), restr, tab, case["width"], deform)
        if isinstance(prior_obj, np.ndarray) and prior_obj.shape == mob0.shape and np.all(np.isfinite(prior_obj)):
            mob0 = np.array(prior_obj, float)
        else:
            prior_obj = None
    rec = Recorder()
    rec.install()
    try:
        np.random.seed(case["seed"])
        mem = case.get("mem", ["C", "C"])
        fixed_in = gen.as_layout(fixed, mem[0])
        mob_in = mob0.astype(np.float32) if mem[1] == "float32" else gen.as_layout(mob0, mem[1])
        if prior_obj is not None:
            mob_in = prior_obj
        result = lib("search", gaddlemaps.minimize_molecules, fixed_in, mob_in, mob0.mean(axis=0), case["sigma"],
                     budget, restr, tab, case["width"], deform)
    finally:
        rec.remove()
    result = np.array(result, float)
    if not rec.events or not rec.constructed:
        raise HarnessError("the search did not go through the wrapped names: nothing observed")
    if not (np.array_equal(fixed_in, fixed) and np.array_equal(mob_in, mob0)):
        raise PropertyViolation("inputs-unchanged", "the search modified its input arrays")
    ev = rec.events
    label = "deform %r, budget %d, %d restraints" % (deform, budget, len(restr))
    # ---- reference model of the loop, replayed over the trace
    if ev[0][0] != "eval" or not np.array_equal(ev[0][1], mob0):
        raise PropertyViolation("initial-evaluation", "%s: the first evaluation is not the initial configuration" % label)
    # every value the search works with is the overlap measure (C08's definition) of the configuration it was computed
    # for - whatever was evaluated, accepted or rejected before on the same calculator
    rl = [tuple(r) for r in restr]
    for k_ev, e in enumerate(ev):
        if e[0] != "eval":
            continue
        exp_val, _, tie = indep.naive_chi2(fixed, e[1], rl)
        if not tie and not abs(e[2] - exp_val) <= 1e-9 * max(abs(exp_val), 1e-9):
            raise PropertyViolation("measure-of-configuration", "%s: evaluation %d of the search gives %.12g, the overlap "
                                    "measure of that configuration is %.12g" % (label, k_ev, e[2], exp_val),
                                    cls="measure-of-configuration")
    held, e_held = ev[0][1], ev[0][2]
    e_min = e_held
    counter = 0
    pos = 1
    nsteps = 0
    acc_worse = rejections = resets_after_wait = 0
    moves = {}
    while pos < len(ev):
        if counter >= budget:
            raise PropertyViolation("stop-late", "%s: the search went on after %d consecutive steps without a new "
                                    "minimum (budget %d)" % (label, counter, budget))
        atommove = None
        if ev[pos][0] == "atommove":
            atommove = (ev[pos][1], ev[pos][2])
            pos += 1
        if pos + 1 >= len(ev) or ev[pos][0] != "eval" or ev[pos + 1][0] != "accept":
            raise PropertyViolation("trace-shape", "%s: step %d is not (proposal evaluation, acceptance call): %r"
                                    % (label, nsteps, [e[0] for e in ev[pos:pos + 3]]))
        prop, e_new = ev[pos][1], ev[pos][2]
        _, a0, a1, dec = ev[pos + 1]
        pos += 2
        nsteps += 1
        if a0 != e_held:
            raise PropertyViolation("judged-against-held", "%s: step %d judged against %.12g but the measure of the "
                                    "held configuration is %.12g (best so far %.12g)" % (label, nsteps, a0, e_held, e_min),
                                    cls="judged-against-held")
        if a1 != e_new:
            raise PropertyViolation("judged-proposal", "%s: step %d: acceptance call got %.12g, the proposal was "
                                    "evaluated to %.12g" % (label, nsteps, a1, e_new))
        how = explain_move(held, prop, deform, atommove, edges)
        if how is None:
            raise PropertyViolation("proposal-kind", "%s: step %d: the proposal is not an enabled move (translation / "
                                    "rotation about the centroid / recorded atom move) of the held configuration; "
                                    "centroid shift %.3e, max pair-distance change %.3e"
                                    % (label, nsteps, np.abs(prop.mean(0) - held.mean(0)).max(),
                                       np.abs(indep.pair_distances(prop) - indep.pair_distances(held)).max()),
                                    cls="proposal-kind:%s" % "".join(map(str, sorted(deform))))
        if how == "atom-move":
            for (a, b), L in zip(edges, case["lengths"]):
                dab = float(np.linalg.norm(prop[a] - prop[b]))
                if not abs(dab - L) <= 1e-9 * max(L, 1e-3):
                    raise PropertyViolation("bond-preserving-move", "%s: step %d: the single-atom move leaves bond "
                                            "%d-%d at %.12g, the bond table says %.12g" % (label, nsteps, a, b, dab, L))
        moves[how] = moves.get(how, 0) + 1
        if e_new <= e_held and not dec:
            raise PropertyViolation("always-accept-better", "%s: step %d: proposal with measure %.12g <= held %.12g "
                                    "was rejected" % (label, nsteps, e_new, e_held))
        if dec:
            if e_new > e_held:
                acc_worse += 1
            held, e_held = prop, e_new
            if e_held < e_min:
                if counter > 0:
                    resets_after_wait += 1
                e_min = e_held
                counter = 0
                continue
        else:
            rejections += 1
        counter += 1
    if counter != budget:
        raise PropertyViolation("stop-early", "%s: the search stopped after %d consecutive steps without a new "
                                "minimum, budget %d" % (label, counter, budget))
    if not np.array_equal(result, held):
        best_note = ""
        raise PropertyViolation("returns-held", "%s: the returned configuration is not the last accepted one "
                                "(differs by %.3e)%s" % (label, np.abs(result - held).max(), best_note))
    nt = acc_worse > 0 and rejections > 0 and resets_after_wait > 0
    return {"nontrivial": nt,
            "classes": ["mobile:%s" % ("1" if len(mob0) == 1 else "2+"), "zero-measure-start" if case.get("coincident") else "positive-start", "deform:" + "".join(map(str, sorted(deform))), "restraints" if restr else "no-restraints",
                        "accepted-worse" if acc_worse else "no-accepted-worse",
                        "budget:%s" % ("<=20" if budget <= 20 else "<=150" if budget <= 150 else ">150"),
                        "total-steps:%s" % ("<=1000x-budget" if nsteps <= 1000 * budget else ">1000x-budget")] +
                       ["move:" + k for k in moves],
            "sample": {"n_fixed": len(fixed), "n_mobile": len(mob0), "deform": list(deform), "budget": budget,
                       "steps": nsteps, "accepted_worse": acc_worse, "rejections": rejections,
                       "resets_after_wait": resets_after_wait, "moves": moves, "seed": case["seed"]}}


# ------------------------------------------------------------------ acceptance rule statistics
@st.composite
def accept_case(draw, tier):
    e0 = 10.0 ** draw(st.floats(-3, 3))
    kind = draw(st.sampled_from(["worse", "worse", "worse", "equal", "better", "zero-zero", "zero-new", "zero-held",
                                 "barely-worse", "barely-worse"]))
    if kind == "barely-worse":
        # worse by a few units in the last places up to 1e-5 relative: still "worse", accepted with probability ~0.01
        e1 = e0 * (1.0 + 10.0 ** draw(st.floats(-15.5, -5)))
        if e1 == e0:
            e1 = float(np.nextafter(e0, np.inf))
        return {"e0": e0, "e1": e1, "kind": "worse", "draws": 400000 if tier == "thorough" else 100000,
                "seed": draw(gen.SEEDS)}
    if kind.startswith("zero"):
        # exact zeros (perfect overlap), as Python floats or numpy scalars
        e0, e1 = {"zero-zero": (0.0, 0.0), "zero-new": (e0, 0.0), "zero-held": (0.0, e0)}[kind]
        return {"e0": e0, "e1": e1, "kind": kind, "draws": 2000, "seed": draw(gen.SEEDS), "numpy_scalars": draw(st.booleans())}
    if kind == "worse":
        ratio = draw(st.sampled_from([0.999, 0.9, 0.5, 0.2, 0.05])) * draw(st.floats(0.8, 1.0))
        e1 = e0 / ratio
    elif kind == "equal":
        e1 = e0
    else:
        e1 = e0 * draw(st.floats(0.0001, 0.9999))
    return {"e0": e0, "e1": e1, "kind": kind, "draws": 400000 if tier == "thorough" else 100000,
            "seed": draw(gen.SEEDS)}


def check_accept(case):
    e0, e1, n = case["e0"], case["e1"], case["draws"]
    if case.get("numpy_scalars"):
        e0, e1 = np.float64(e0), np.float64(e1)
    np.random.seed(case["seed"])
    if case["kind"] == "zero-held":
        acc = sum(1 for _ in range(n) if lib("accept", gaddlemaps.accept_metropolis, e0, e1))
        if acc:
            raise PropertyViolation("accept-probability", "E_held=0, E_new=%r: probability 0.01*0/E_new = 0, accepted %d of %d" % (e1, acc, n))
        return {"nontrivial": False, "classes": ["accept:zero-held"]}
    if case["kind"] in ("zero-zero", "zero-new"):
        acc = sum(1 for _ in range(n) if lib("accept", gaddlemaps.accept_metropolis, e0, e1))
        if acc != n:
            raise PropertyViolation("always-accept-better", "E_new=%r <= E_held=%r accepted in %d of %d draws" % (e1, e0, acc, n))
        return {"nontrivial": False, "classes": ["accept:" + case["kind"]]}
    acc = 0
    with env.quiet():
        for _ in range(n):
            if gaddlemaps.accept_metropolis(e0, e1):
                acc += 1
    if e1 <= e0:
        if acc != n:
            raise PropertyViolation("always-accept-better", "E_new=%r <= E_held=%r accepted in %d of %d draws" % (e1, e0, acc, n))
        return {"nontrivial": False, "classes": ["accept:" + case["kind"]]}
    p = 0.01 * e0 / e1
    sigma = math.sqrt(n * p * (1 - p))
    if abs(acc - n * p) > 6 * sigma + 1:
        raise PropertyViolation("acceptance-probability", "E_held/E_new=%.4f: accepted %d of %d draws, expected "
                                "%.1f +- %.1f (p=0.01*E_held/E_new)" % (e0 / e1, acc, n, n * p, sigma))
    # the decision is a function of the random stream: same seed, same decisions
    np.random.seed(case["seed"])
    a1 = [bool(gaddlemaps.accept_metropolis(e0, e1)) for _ in range(50)]
    np.random.seed(case["seed"])
    a2 = [bool(gaddlemaps.accept_metropolis(e0, e1)) for _ in range(50)]
    if a1 != a2:
        raise PropertyViolation("acceptance-deterministic", "same seed, different decisions")
    return {"nontrivial": True, "classes": ["accept:worse"]}


def slow_cases(tier, seed):
    """Searches that take more than a thousand times their budget in total: a target 20 nm away approached by
    translations of 2 pm.  The stop rule only counts CONSECUTIVE steps without a new lowest measure."""
    out = []
    for k in range(8 if tier == "thorough" else 4):
        rng = np.random.default_rng(int(seed) * 131 + k)
        mob = np.array([[0.0, 0.0, 0.0], [0.3, 0.0, 0.1], [0.3, 0.25, 0.0]])[: 2 + k % 2]
        fixed = mob[[0, 1, 1]] + rng.normal(0, 0.1, (3, 3)) + np.array([26.0 + k, 0.0, 0.0])
        edges = [[0, 1], [1, 2]][: len(mob) - 1]
        out.append({"fixed": fixed.tolist(), "mobile": mob.tolist(), "edges": edges,
                    "lengths": [float(np.linalg.norm(mob[a] - mob[b])) for a, b in edges], "restr": [], "deform": [0],
                    "steps": 20 + k, "sigma": 0.5, "width": 0.002, "seed": int(seed) + k, "coincident": False,
                    "chained": False, "mem": ["C", "C"]})
    return out, False


def check_slow(case):
    info = check(case)
    # (a run of `budget` non-improving steps may occur by chance before the target is reached - about 2 % of these
    # cases - and is then the legitimate end of the search)
    info["nontrivial"] = "total-steps:>1000x-budget" in info["classes"]
    return info


@st.composite
def manager_route_case(draw):
    from checks import c10_restraints as c10
    case = draw(c10.manager_case())
    case["bad"] = None
    return case


def check_manager_route(case):
    """The search of each species, started through Manager.align_molecules (options per species in dictionaries of any
    order, validated beforehand or not), is restricted to the deformation types enabled FOR THAT SPECIES: what reaches
    the optimiser is compared species by species (the oracle is C10's recorder of the optimiser's arguments)."""
    from checks import c10_restraints as c10
    info = c10.check_manager(case)
    info["nontrivial"] = len(set(tuple(o.get("deform", (0, 1, 2))) for o in case["opts"].values())) >= 2
    return info


SUBCHECKS = [
    Sub("manager-route", check_manager_route, strategy=lambda tier: manager_route_case(), quick=300, thorough=12000),
    Sub("slow", check_slow, enumerate=slow_cases, shards=4,
        note="searches whose total length exceeds 1000 x budget (the stop rule counts consecutive steps only)"),
    Sub("trace", check, strategy=lambda tier: case_strategy(tier), quick=800, thorough=30000,
        min_share={"accepted-worse": 0.05, "move:atom-move": 0.3, "move:rotation": 0.3, "move:translation": 0.3,
                   "nontrivial": 0.03}),
    Sub("acceptance", check_accept, strategy=lambda tier: accept_case(tier), quick=160, thorough=3200),
]
