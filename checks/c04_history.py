"""C04  Applying an exchange map is pure, history-independent and species-checked.

Model-based history generation: a case is (reference, target, s, operation
list); the interpreter applies every operation to ONE map under test and judges
it against a reference model that rebuilds a fresh map from pristine specs."""
import numpy as np
from hypothesis import strategies as st

from vlib import env, gen  # noqa: F401
from vlib.build import build_molecule, lib, positions, residues_from_spec
from vlib.report import PropertyViolation
from vlib.runner import Sub

from checks import xmap_common as xc

import gaddlemaps

PROPERTY = "C04"
LEVEL = "exploration"
RULE = ("histories of up to 30 operations on one map: call(new conformation + new residue numbers), "
        "call_again(earlier argument), call(construction reference object), reject(other species / same name other "
        "atoms / previously returned molecule / None / str / ndarray / Residue), mutate(move, rotate or reassign "
        "coordinates of the very molecules the map was built from); reference 3..12 atoms, 1..3 residues. "
        "Non-trivial = >=2 successful calls with different conformations and >=1 rejection or construction "
        "mutation between them. Distinct = sha1 of the case JSON.")
ASSUMPTIONS = [
    "'changes to the construction molecules' = geometric changes; renaming them changes the accepted species by "
    "the library's documented equality and is not exercised",
    "reference of >=3 atoms in generic geometry (no random completion involved); arguments are generic conformations, "
    "plus degenerate ones (an anchor coinciding with a frame neighbour) for which only history-independence and equality "
    "with a fresh map are required, undefined (NaN) coordinates included",
]

REJECT_KINDS = ["other", "samename-atoms", "samename-count", "returned", "none", "str", "ndarray", "residue", "label-twin",
                "case-twin", "renamed", "shorter", "longer"]


@st.composite
def op_strategy(draw):
    k = draw(st.sampled_from(["call", "call", "call", "again", "call_ref", "reject", "reject", "mutate", "call_deg",
                              "same_scale", "call_near", "call_near", "late_refusal", "mutate_arg"]))
    if k == "mutate_arg":
        return ["mutate_arg", draw(st.integers(0, 50)), draw(gen.SEEDS)]
    if k == "late_refusal":
        return ["late_refusal", draw(gen.SEEDS), draw(st.integers(1, 99000))]
    if k == "same_scale":
        return ["same_scale"]
    if k == "call_near":
        return ["call_near", draw(gen.SEEDS), draw(st.sampled_from([1e-2, 1e-3, 1e-4, 1e-6]))]
    if k in ("call", "call_deg"):
        return [k, draw(gen.SEEDS), draw(st.integers(1, 99000))]
    if k == "again":
        return ["again", draw(st.integers(0, 50))]
    if k == "call_ref":
        return ["call_ref"]
    if k == "reject":
        return ["reject", draw(st.sampled_from(REJECT_KINDS)), draw(st.integers(0, 50))]
    return ["mutate", draw(st.sampled_from(["ref", "tgt"])),
            draw(st.sampled_from(["move", "rotate", "assign", "move_to"])), draw(gen.SEEDS)]


@st.composite
def case_strategy(draw, max_ops=30):
    base = draw(xc.ref_tgt_case(nref=(3, 12), ntgt=(1, 14), geoms=["generic"], nres_max=3,
                                placements=("near", "mix")))
    base["ops"] = draw(st.lists(op_strategy(), min_size=2, max_size=max_ops))
    return base


def _conformation(rpos, edges, seed):
    rng = np.random.default_rng(seed)
    n = len(rpos)
    for _ in range(200):
        new = rpos + rng.uniform(-0.25, 0.25, (n, 3))
        d = np.sqrt(((new[:, None] - new[None]) ** 2).sum(-1)) + np.eye(n) * 10
        if d.min() >= 1e-2 and gen.min_anchor_sine(new, edges) >= 1e-3:
            break
    R = gen.random_rotation(rng)
    return new @ R.T + rng.uniform(-10, 10, 3)


def _names(mol):
    return [(a.name, a.resname) for a in mol]


def check(case):
    s = case["s"]
    rspec, tspec = case["ref"], case["tgt"]
    rpos = np.array(rspec["coords"], float)
    nres = len(rspec["residues"])
    ref, tgt = xc.build_pair(case)
    M = xc.make_map(ref, tgt, s)
    tgt_names = [(an, rn) for rn, _, names in tspec["residues"] for an in names]

    args = []       # (molecule, coords, resids)
    results = []    # (molecule, snapshot positions, arg index)
    snap = {"ref": positions(ref), "tgt": positions(tgt)}
    by_arg = {}
    ncalls = 0
    confs = set()
    disturbed_since = False
    nt = False
    n_reject = n_mut = 0

    def fresh_expected(coords, resids):
        f_ref = build_molecule(rspec)
        f_tgt = build_molecule(tspec)
        Mf = gaddlemaps.ExchangeMap(f_ref, f_tgt, s)
        arg = build_molecule(rspec, coords=coords, resids=resids)
        with env.quiet():
            return positions(Mf(arg))

    def verify_frozen(step):
        for nm, mol in (("reference", ref), ("target", tgt)):
            key = "ref" if nm == "reference" else "tgt"
            if not np.array_equal(positions(mol), snap[key]):
                raise PropertyViolation("pure-construction", "step %d: coordinates of the construction %s "
                                        "molecule changed" % (step, nm))
        for i, (mol, coords, resids) in enumerate(args):
            if not np.array_equal(positions(mol), coords):
                raise PropertyViolation("pure-argument", "step %d: coordinates of argument %d changed" % (step, i))
            if list(mol.resids) != list(resids):
                raise PropertyViolation("pure-argument", "step %d: residue numbers of argument %d changed" % (step, i))
        for i, (mol, sp, _) in enumerate(results):
            if not np.array_equal(positions(mol), sp, equal_nan=True):
                raise PropertyViolation("pure-results", "step %d: previously returned molecule %d changed by %.3e"
                                        % (step, i, np.abs(positions(mol) - sp).max()))

    def do_call(step, arg_index):
        nonlocal ncalls, nt, disturbed_since
        mol, coords, resids = args[arg_index]
        out = lib("call", M, mol)
        got = positions(out)
        exp = fresh_expected(coords, resids)
        same_nan = got.shape == exp.shape and np.array_equal(np.isnan(got), np.isnan(exp))
        if not same_nan or not np.nanmax(np.abs(got - exp), initial=0.0) <= 1e-12:
            raise PropertyViolation("fresh-map", "step %d: result differs from a freshly built map by %.3e%s"
                                    % (step, np.nanmax(np.abs(got - exp), initial=0.0) if got.shape == exp.shape else -1,
                                       "" if same_nan else " (undefined coordinates in one of them only)"))
        if arg_index in by_arg and not np.array_equal(by_arg[arg_index], got, equal_nan=True):
            raise PropertyViolation("history", "step %d: same argument mapped earlier gave a different result "
                                    "(diff %.3e)" % (step, np.abs(by_arg[arg_index] - got).max()))
        by_arg[arg_index] = got.copy()
        if _names(out) != tgt_names:
            raise PropertyViolation("labels", "step %d: result atom/residue names %r != target's %r"
                                    % (step, _names(out)[:6], tgt_names[:6]))
        if list(out.resids) != list(resids):
            raise PropertyViolation("resids", "step %d: result residue numbers %r != argument's %r"
                                    % (step, list(out.resids), list(resids)))
        per_atom = [a.gro_resid for a in out]
        exp_atom = [resids[r] for r, (_, _, names) in enumerate(tspec["residues"]) for _ in names]
        if per_atom != exp_atom:
            raise PropertyViolation("resids", "step %d: per-atom residue numbers %r != %r" % (step, per_atom, exp_atom))
        results.append((out, got.copy(), arg_index))
        key = coords.tobytes()
        if confs and key not in confs and disturbed_since:
            nt = True
        confs.add(key)
        disturbed_since = False
        ncalls += 1

    for step, op in enumerate(case["ops"]):
        kind = op[0]
        if kind == "call_near":
            # the next frame of a slow trajectory: the previous argument plus a small jitter (results must follow it)
            if not args:
                continue
            prev = args[-1]
            coords = prev[1] + np.random.default_rng(op[1]).normal(0, op[2], prev[1].shape)
            mol = build_molecule(rspec, coords=coords, resids=prev[2])
            args.append((mol, coords.copy(), prev[2]))
            do_call(step, len(args) - 1)
            continue
        if kind in ("call", "call_deg"):
            coords = _conformation(rpos, rspec["edges"], op[1])
            if kind == "call_deg":
                # a degenerate conformation of the right species: an anchor coincides with one of its frame
                # neighbours (its frame is undefined; whatever the map returns - NaN included - must not depend on
                # what was mapped before)
                triples = gen.anchor_triples(len(rpos), rspec["edges"])
                a_, n1_, n2_ = triples[op[1] % len(triples)]
                coords[n2_ if op[1] % 2 else n1_] = coords[a_]
            resids = [op[2] + r for r in range(nres)] if op[2] % 3 else [op[2] + 7 * ((r * 5) % 3) for r in range(nres)]
            mol = build_molecule(rspec, coords=coords, resids=resids)
            args.append((mol, coords.copy(), resids))
            do_call(step, len(args) - 1)
        elif kind == "mutate_arg":
            # an argument mapped before gets another conformation IN PLACE - atom by atom through the live views, by
            # editing the stored arrays, or residue by residue - and is mapped again (same object, new coordinates)
            if not args:
                continue
            k_ = op[1] % len(args)
            mol, _, resids = args[k_]
            newc = _conformation(rpos, rspec["edges"], op[2])
            with env.quiet():
                if op[1] % 3 == 0:
                    for at, p_ in zip(mol, newc):
                        at.position = p_.copy()
                elif op[1] % 3 == 1:
                    for at, p_ in zip(mol, newc):
                        at.position[:] = p_
                else:
                    j_ = 0
                    for res in mol.residues:
                        res.atoms_positions = newc[j_:j_ + len(res)].copy()
                        j_ += len(res)
            args[k_] = (mol, positions(mol).copy(), resids)
            by_arg.pop(k_, None)
            disturbed_since = True
            do_call(step, k_)
        elif kind == "late_refusal":
            # a molecule of the RIGHT species in a new conformation whose residue number cannot be given to the result
            # (a numpy integer; two numbers for one residue of the target): the call is refused at its very end - or
            # not at all - and whatever it did on the way must not show in the calls that follow
            coords = _conformation(rpos, rspec["edges"], op[1])
            mol = build_molecule(rspec, coords=coords, resids=[op[2] + r for r in range(nres)])
            try:
                with env.quiet():
                    if op[1] % 2 or len(mol.residues[0]) < 2:
                        mol.residues[0].resid = np.arange(op[2], op[2] + 3)[1]
                    else:
                        first = list(mol.residues[0])
                        for at in first[len(first) // 2:]:
                            at.resid = op[2] + 500
                    M(mol)
            except Exception:      # noqa: BLE001
                pass
            disturbed_since = True
        elif kind == "again":
            if args:
                do_call(step, op[1] % len(args))
        elif kind == "call_ref":
            coords = positions(ref)
            resids = list(ref.resids)
            args.append((ref, coords.copy(), resids))
            do_call(step, len(args) - 1)
            args.pop()          # the construction reference may be mutated later by a rule
            by_arg.pop(len(args), None)
        elif kind == "reject":
            what = op[1]
            if what == "other":
                bad = build_molecule(dict(tspec, name="OTHER"))
            elif what == "samename-atoms":
                sp = dict(rspec)
                sp["residues"] = [[rn, ri, [nm + "x" if (r, i) == (0, 0) else nm for i, nm in enumerate(names)]]
                                  for r, (rn, ri, names) in enumerate(rspec["residues"])]
                bad = build_molecule(sp)
            elif what == "label-twin":
                # another species whose only difference is one residue's (number, name) pair - chosen so that number
                # and name glued together read the same: 12 + "MA" against 1 + "2MA"
                sp = dict(rspec)
                res = [list(r) for r in rspec["residues"]]
                for r in res:
                    if r[1] >= 10 and len(r[0]) <= 4:
                        r[0], r[1] = str(r[1] % 10) + r[0], r[1] // 10
                        break
                    if r[0][0].isdigit() and len(r[0]) > 1 and r[1] < 9999:
                        r[0], r[1] = r[0][1:], int(str(r[1]) + r[0][0])
                        break
                else:
                    continue
                sp["residues"] = res
                bad = build_molecule(sp)
            elif what == "case-twin":
                # ... or the case of one atom name
                sp = dict(rspec)
                res = [[r[0], r[1], list(r[2])] for r in rspec["residues"]]
                nm = res[-1][2][-1]
                if nm.swapcase() == nm:
                    continue
                res[-1][2][-1] = nm.swapcase()
                sp["residues"] = res
                bad = build_molecule(sp)
            elif what in ("renamed", "shorter", "longer"):
                # another species whose atoms coincide with the reference's over their common length: the same beads under
                # another molecule name, a homologue with one atom less / one atom more at the end
                sp = dict(rspec, coords=[list(c) for c in rspec["coords"]])
                res = [[r[0], r[1], list(r[2])] for r in rspec["residues"]]
                nat = len(rpos)
                if what == "renamed":
                    sp["name"] = "OTHER"
                elif what == "shorter":
                    if nat < 2 or len(res[-1][2]) < 2:
                        continue
                    res[-1][2].pop()
                    sp["edges"] = [e for e in rspec["edges"] if nat - 1 not in e]
                    sp["coords"] = sp["coords"][:-1]
                    if "vel" in sp and sp["vel"] is not None:
                        sp["vel"] = sp["vel"][:-1]
                else:
                    res[-1][2].append("X%d" % (nat + 1))
                    sp["edges"] = [list(e) for e in rspec["edges"]] + [[nat - 1, nat]]
                    sp["coords"] = sp["coords"] + [[c + 0.2 for c in sp["coords"][-1]]]
                    if "vel" in sp and sp["vel"] is not None:
                        sp["vel"] = list(sp["vel"]) + [sp["vel"][-1]]
                sp["residues"] = res
                bad = build_molecule(sp)
            elif what == "samename-count":
                bad = build_molecule(dict(tspec, name=rspec["name"]))
                if len(bad) == len(ref) and _names(bad) == _names(ref):
                    continue
            elif what == "returned":
                if not results:
                    continue
                bad = results[op[2] % len(results)][0]
            elif what == "none":
                bad = None
            elif what == "str":
                bad = "REF"
            elif what == "ndarray":
                bad = rpos.copy()
            else:
                bad = residues_from_spec(rspec)[0]
            try:
                with env.quiet():
                    M(bad)
            except TypeError:
                pass
            except Exception as exc:   # noqa: BLE001
                raise PropertyViolation("reject", "step %d: argument of kind %s raised %s instead of TypeError: %s"
                                        % (step, what, type(exc).__name__, str(exc)[:200]))
            else:
                raise PropertyViolation("reject", "step %d: argument of kind %s was accepted" % (step, what))
            n_reject += 1
            disturbed_since = True
        elif kind == "same_scale":
            # the public attribute is assigned the value it already has: nothing may change
            M.scale_factor = s
            disturbed_since = True
        elif kind == "mutate":
            mol = ref if op[1] == "ref" else tgt
            rng = np.random.default_rng(op[3])
            with env.quiet():
                if op[2] == "move":
                    mol.move(rng.uniform(-5, 5, 3))
                elif op[2] == "move_to":
                    mol.move_to(rng.uniform(-5, 5, 3))
                elif op[2] == "rotate":
                    mol.rotate(gen.random_rotation(rng))
                else:
                    mol.atoms_positions = rng.uniform(-3, 3, (len(mol), 3))
            snap["ref" if op[1] == "ref" else "tgt"] = positions(mol)
            n_mut += 1
            disturbed_since = True
        verify_frozen(step)
    return {"nontrivial": nt,
            "classes": ["calls:%s" % ("0" if ncalls == 0 else "1" if ncalls == 1 else "2+"),
                        "rejects" if n_reject else "no-rejects", "mutations" if n_mut else "no-mutations",
                        "residues:%d" % nres],
            "sample": {"ref_atoms": len(rpos), "tgt_atoms": len(tgt_names), "s": s, "ops": case["ops"]}}


SUBCHECKS = [
    Sub("history", check, strategy=lambda tier: case_strategy(),
        quick=3000, thorough=150000, min_share={"nontrivial": 0.1, "mutations": 0.15, "rejects": 0.15}),
]
