"""C05  System extrapolation conserves molecules, order, numbering, box and title."""
import os

import numpy as np
from hypothesis import strategies as st

from vlib import env, gen, indep  # noqa: F401
from vlib.build import build_molecule, lib, positions, step_cap
from vlib.report import PropertyViolation
from vlib.runner import Sub

import gaddlemaps
from gaddlemaps import Alignment, Manager
from gaddlemaps.components import Molecule, System

PROPERTY = "C05"
LEVEL = "exploration"
RULE = ("(generated) 2..4 mappable species (start molecule 1..6 atoms incl. 1- and 2-atom ones, end molecule 1..12 "
        "atoms, 1..2 residues, private residue kinds), one solvent species without topology, one species loaded but "
        "never given an end molecule; molecule sequences up to 12 (quick) / 120 instances, interleaved; a random subset "
        "of species gets an end molecule; rectangular or triclinic box; random title; scale in (0,2]; half of the cases "
        "run the real Monte-Carlo alignment (small STEPS_FACTOR) first; plus the error paths (extrapolating before "
        "the maps exist, with maps for only some complete species, with no complete species). (shipped) the BMIM/BF4 "
        "box with both species, with one species, at two scales. (runs) a species of 2-3 residues per molecule in "
        "uninterrupted runs of 255..2049 molecules, every written molecule compared with its own input molecule. Non-trivial = >=2 complete species interleaved, >=1 "
        "present-but-skipped species and >=1 start molecule with >=3 atoms. Distinct = sha1 of the case JSON.")
ASSUMPTIONS = [
    "input files are written by the harness (3 decimals); output is parsed by the harness' own fixed-column reader",
    "expected coordinates = the species' own exchange map applied to an input molecule that the harness builds from "
    "its spec (the map itself is the subject of C01-C04); tolerance = half a unit of the last written decimal + 1e-9",
    "for start molecules of fewer than three atoms only the invariants of C02 are compared, within 2e-3 nm",
    "molecules are connected trees without hydrogens; start and end have equal residue counts and names",
]

HALF = 0.5e-3 + 1e-9


@st.composite
def species_strategy(draw, idx):
    name = "SP%d" % idx
    nres = draw(st.integers(1, 2))
    ns = draw(st.sampled_from([1, 2, 3, 3, 4, 5, 6]))
    ns = max(ns, nres)
    ne = max(draw(st.integers(1, 12)), nres)
    if ne == ns and ns > 1:
        ne += 1                      # different size: the end molecule is not mistaken for the start one
    # (one bead mapped to one atom - an ion - is a legitimate species: both molecules have one atom)
    rnames = ["S%d%s" % (idx, c) for c in "AB"][:nres]

    def topo(n, tag):
        edges = draw(gen.graph_edges(n, draw(st.sampled_from(["tree", "chain", "star"]))))
        names = ["%s%d" % (draw(st.sampled_from(["C", "N", "O", "P"])), k + 1) for k in range(n)]
        if nres == 1:
            sizes = [n]
        else:
            cut = draw(st.integers(1, n - 1))
            sizes = [cut, n - cut]
        return {"name": name, "edges": edges,
                "residues": gen.split_residues_spec(names, rnames, sizes, 1)}
    return {"start": topo(ns, "s"), "end": topo(ne, "e")}


@st.composite
def system_case(draw, tier):
    nsp = draw(st.integers(2, 4))
    rng = np.random.default_rng(draw(gen.SEEDS))
    species = {}
    for k in range(nsp):
        sp = draw(species_strategy(k))
        s, e = sp["start"], sp["end"]
        ns, ne = gen.spec_n(s), gen.spec_n(e)
        spos = gen.walk_geometry(ns, s["edges"], rng, lo=0.2, hi=0.45, spread=0.2)
        epos = gen.walk_geometry(ne, e["edges"], rng, lo=0.1, hi=0.2, spread=0.2) + spos.mean(0)
        sp["start"] = gen.with_coords(s, spos)
        sp["end"] = gen.with_coords(e, epos)
        species[s["name"]] = sp
    # a loaded-but-unmapped species and an unloaded solvent
    extra = {"name": "XTRA", "edges": [[0, 1]], "residues": [["XT", 1, ["C1", "C2"]]]}
    solvent = {"name": "SOL", "edges": [[0, 1], [0, 2]], "residues": [["SOL", 1, ["OW", "HW1", "HW2"]]]}
    names = sorted(species)
    two_res = [nm for nm in names if len(species[nm]["start"]["residues"]) == 2]
    cap_for = None
    if two_res and draw(st.integers(0, 2)) == 0:
        # the species without topology ENDS in a residue of the kind (name, atom count) a mapped two-residue species
        # STARTS with: an instance of it right before that species must not disturb the search for the latter
        cap_for = draw(st.sampled_from(two_res))
        lead = species[cap_for]["start"]["residues"][0]
        solvent = {"name": "SOL", "edges": [], "residues": [["CP", 1, ["Q1"]], [lead[0], 2, ["Z%d" % (i + 1) for i in range(len(lead[2]))]]],
                   "coords": [[0.1 * i, 0.05 * (i % 2), 0.0] for i in range(1 + len(lead[2]))]}
    with_end = draw(st.lists(st.sampled_from(names), min_size=1, max_size=len(names), unique=True))
    L = draw(st.integers(2, 120 if tier == "thorough" else 12))
    pool = names + ["XTRA", "SOL"]
    seq = draw(st.lists(st.sampled_from(pool), min_size=L, max_size=L))
    for nm in with_end[:1]:
        if nm not in seq:
            seq[draw(st.integers(0, L - 1))] = nm
    if draw(st.booleans()):
        # make the interesting shape likely: two mapped species interleaved, a loaded-but-unmapped one between them
        if len(with_end) < 2:
            with_end = list(with_end) + [nm for nm in names if nm not in with_end][:1]
        a, b = with_end[0], with_end[1]
        skipped = "XTRA" if len(with_end) == len(names) else [nm for nm in names if nm not in with_end][0]
        at = draw(st.integers(0, len(seq)))
        seq[at:at] = [a, b, skipped, a, b]
    if cap_for is not None:
        at = draw(st.integers(0, len(seq)))
        seq[at:at] = [cap_for, "SOL", cap_for, "SOL", "SOL", cap_for]
        if cap_for not in with_end:
            with_end = list(with_end) + [cap_for]
    load = [nm for nm in names if nm in seq]
    if "XTRA" in seq:
        load.append("XTRA")
    load = list(draw(st.permutations(load)))
    bk = draw(st.sampled_from(["rect", "rect", "triclinic"]))
    box = np.diag(np.round(rng.uniform(8, 40, 3), 5))
    if bk == "triclinic":
        box[1, 0] = round(float(rng.uniform(-3, 3)), 5)
        box[2, 0] = round(float(rng.uniform(-3, 3)), 5)
        box[2, 1] = round(float(rng.uniform(-3, 3)), 5)
    return {"species": species, "extra": extra, "solvent": solvent, "sequence": seq,
            "with_end": sorted(nm for nm in with_end if nm in seq), "load": load,
            "box": box.tolist(), "box_kind": bk,
            "title": draw(st.sampled_from(["CG system", "t=   0.00000 step 12", "Generated by trjconv : x  ",
                                           "x", "100 ns, 25 \u00b0C, box in \u00c5", "[ system ] ; not a comment, 1.5"])),
            "scale": draw(st.one_of(st.just(0.5), st.just(1.0), st.floats(0.05, 2.0))),
            "align": draw(st.booleans()), "attach": draw(st.sampled_from(["add_end", "setattr", "from_files"])),
            "restart": draw(st.integers(0, 3)) == 0, "repeat": draw(st.sampled_from([None, None, "other-path", "same-path"])),
            "seed": draw(gen.SEEDS), "error_path": draw(st.sampled_from([None, None, None, "before-maps", "partial-maps",
                                                                           "no-complete"])),
            "system_route": draw(st.sampled_from(["from_files", "from_files", "incremental", "empty-then-add"]))}


def instance_coords(spec, rng):
    """A conformation of a start molecule: rigid motion + small deformation, anchors stay generic."""
    base = np.array(spec["coords"], float)
    n = len(base)
    for _ in range(100):
        new = (base + rng.normal(0, 0.02, base.shape)) @ gen.random_rotation(rng).T + rng.uniform(1, 7, 3)
        new = np.round(new, 3)
        if n < 3 or gen.min_anchor_sine(new, spec["edges"]) >= 1e-2:
            d = np.sqrt(((new[:, None] - new[None]) ** 2).sum(-1)) + np.eye(n) * 10
            if n == 1 or d.min() > 0.05:
                return new
    raise RuntimeError("no conformation")


def check(case):
    if not case["title"].isascii():
        import locale
        if locale.getpreferredencoding(False).lower().replace("-", "") != "utf8":
            case = dict(case, title="100 ns, 25 C")      # files are opened in the locale's encoding
    rng = np.random.default_rng(case["seed"])
    species = case["species"]
    specs = {nm: sp["start"] for nm, sp in species.items()}
    specs["XTRA"] = dict(case["extra"], coords=[[0, 0, 0], [0.3, 0, 0]])
    specs["SOL"] = dict(case["solvent"], coords=case["solvent"].get("coords") or [[0, 0, 0], [0.1, 0, 0], [0, 0.1, 0]])
    # ---- write the input system
    records = []
    instances = []
    resid = 0
    last_resid = [None]
    for nm in case["sequence"]:
        sp = specs[nm]
        coords = instance_coords(sp, rng)
        rids = []
        k = 0
        for rn, _, names in sp["residues"]:
            # residue numbers are arbitrary: mostly +1, sometimes a jump forwards or backwards
            jump = int(rng.integers(0, 6))
            resid = resid + 1 if jump < 3 else (resid + int(rng.integers(2, 40)) if jump < 5
                                                 else max(1, resid - int(rng.integers(1, 30))))
            if resid == last_resid[0]:       # equal number and name would be ONE residue in the file
                resid += 1
            last_resid[0] = resid
            rids.append(resid)
            for an in names:
                records.append((resid, rn, an, len(records) + 1) + tuple(float(c) for c in coords[k]))
                k += 1
        instances.append((nm, coords, rids))
    # (a fifth of the systems are stored in a coordinate format the user registered himself)
    from vlib.build import custom_coordinate_format
    gro = env.fresh_path("." + custom_coordinate_format() if case["seed"] % 5 == 0 else ".gro")
    indep.write_gro(gro, case["title"], records, np.array(case["box"]))
    itp = {}
    for nm in case["load"]:
        itp[nm] = env.fresh_path(".itp")
        with open(itp[nm], "w") as f:
            f.write(indep.itp_text(nm, [(an, rn, ri) for rn, ri, names in specs[nm]["residues"] for an in names],
                                   [tuple(e) for e in specs[nm]["edges"]]))
    out = env.fresh_path(".gro")
    old_steps = Alignment.STEPS_FACTOR
    Alignment.STEPS_FACTOR = 3
    try:
        return _run(case, species, specs, instances, gro, itp, out)
    finally:
        Alignment.STEPS_FACTOR = old_steps


def read_output(path):
    """The written system through the harness' own reader; a file it cannot read is not a coordinate file."""
    try:
        return indep.read_gro(path)
    except Exception as exc:      # noqa: BLE001
        with open(path, errors="replace") as f:
            head = f.read(200)
        raise PropertyViolation("output-format", "the written file is not a readable .gro file (%s: %s); it starts with %r"
                                % (type(exc).__name__, exc, head), cls="output-format")


def _attach(man, case, nm, species):
    espec = species[nm]["end"]
    if case["attach"] == "from_files":
        g = env.fresh_path(".gro")
        i = env.fresh_path(".itp")
        from vlib.build import spec_records, write_spec_itp
        indep.write_gro(g, "end molecule", spec_records(espec), [5.0, 5.0, 5.0], decimals=3)
        write_spec_itp(espec, i)
        end = lib("end-molecule", Molecule.from_files, g, i)
    else:
        end = build_molecule(espec)
    if case["attach"] == "setattr":
        man.molecule_correspondence[nm].end = end
    else:
        lib("add-end", man.add_end_molecule, end)
    if case.get("restart"):
        # the start molecule is re-assigned with an equal molecule that was built on its own (another topology object),
        # e.g. a pre-aligned conformation loaded from its own files
        sspec = species[nm]["start"]
        man.molecule_correspondence[nm].start = build_molecule(sspec)


def _expect_error(fn, out, what):
    try:
        with env.quiet():
            fn(out)
    except Exception:      # noqa: BLE001  (SystemError in the present code; any error satisfies the statement)
        if os.path.exists(out):
            raise PropertyViolation("error-no-file", "%s: an error was raised but the output file exists" % what)
        return
    raise PropertyViolation("error-raised", "%s: extrapolate_system did not raise (file written: %s)"
                            % (what, os.path.exists(out)), cls="error-raised:" + what.split(":")[0])


def _run(case, species, specs, instances, gro, itp, out):
    np.random.seed(case["seed"] % (2 ** 32))
    route = case.get("system_route", "from_files")
    paths = [itp[nm] for nm in case["load"]]
    if route == "from_files" or not paths:
        man = lib("manager", Manager.from_files, gro, *paths)
    else:
        # the System is completed after construction (public add_ftop), then handed to the Manager
        k = 1 if route == "incremental" else 0
        syst = lib("system", System, gro, *paths[:k])
        for pth in paths[k:]:
            lib("add_ftop", syst.add_ftop, pth)
        man = lib("manager", Manager, syst)
    complete = [nm for nm in case["with_end"] if nm in case["load"]]
    ep = case["error_path"]
    if ep == "no-complete":
        _expect_error(man.extrapolate_system, out, "no-complete: no species has an end molecule")
        return {"nontrivial": False, "classes": ["error:no-complete"]}
    for nm in complete[:1] if ep == "partial-maps" else complete:
        _attach(man, case, nm, species)
    if ep == "before-maps":
        _expect_error(man.extrapolate_system, out, "before-maps: maps never calculated")
        return {"nontrivial": False, "classes": ["error:before-maps"]}
    if case["align"]:
        with step_cap():
            lib("align", man.align_molecules)
    lib("maps", man.calculate_exchange_maps, case["scale"])
    if ep == "partial-maps":
        if len(complete) < 2:
            return {"nontrivial": False, "classes": ["error:partial-skipped"]}
        for nm in complete[1:]:
            _attach(man, case, nm, species)
        _expect_error(man.extrapolate_system, out, "partial-maps: a complete species has no exchange map yet")
        lib("maps", man.calculate_exchange_maps, case["scale"])
    if case.get("repeat"):
        # the same Manager writes more than one file (another path first, or the same path twice): every file is complete
        lib("extrapolate", man.extrapolate_system, out if case["repeat"] == "same-path" else env.fresh_path(".gro"))
    lib("extrapolate", man.extrapolate_system, out)
    res = read_output(out)
    s = case["scale"]
    # ---- header
    if res["title"].rstrip() != case["title"].rstrip():
        raise PropertyViolation("title", "title %r, input %r" % (res["title"], case["title"]))
    if not np.abs(res["box"] - np.array(case["box"])).max() <= 5e-6:
        raise PropertyViolation("box", "box %r, input %r" % (res["box"].tolist(), case["box"]), cls="box:" + case["box_kind"])
    # ---- blocks
    exp_blocks = [(nm, coords, rids) for nm, coords, rids in instances if nm in complete]
    exp_natoms = sum(gen.spec_n(species[nm]["end"]) for nm, _, _ in exp_blocks)
    recs = res["records"]
    if len(recs) != exp_natoms:
        raise PropertyViolation("atom-count", "%d atoms written, expected %d (= sum of target sizes over %d mapped "
                                "instances; sequence %r, complete %r)" % (len(recs), exp_natoms, len(exp_blocks),
                                                                           case["sequence"], complete))
    for k, r in enumerate(recs):
        if r[3] != (k + 1) % 100000:
            raise PropertyViolation("atom-numbers", "atom %d carries number %d" % (k + 1, r[3]))
    pos = 0
    small = 0
    for b, (nm, coords, rids) in enumerate(exp_blocks):
        espec = species[nm]["end"]
        ne = gen.spec_n(espec)
        block = recs[pos:pos + ne]
        pos += ne
        exp_names = [(rn, an) for rn, _, names in espec["residues"] for an in names]
        if [(r[1], r[2]) for r in block] != exp_names:
            raise PropertyViolation("block-names", "block %d (%s): names %r, target has %r"
                                    % (b, nm, [(r[1], r[2]) for r in block][:4], exp_names[:4]), cls="block-names")
        exp_resids = [rids[ri] for ri, (_, _, names) in enumerate(espec["residues"]) for _ in names]
        if [r[0] for r in block] != exp_resids:
            raise PropertyViolation("block-resids", "block %d (%s): residue numbers %r, input molecule has %r"
                                    % (b, nm, [r[0] for r in block], exp_resids))
        got = np.array([r[4:7] for r in block], float)
        ali = man.molecule_correspondence[nm]
        inp = build_molecule(specs[nm], coords=coords, resids=rids)
        nstart = len(coords)
        if nstart >= 3:
            exp = positions(lib("map", ali.exchange_map, inp))
            err = np.abs(got - exp).max()
            if not err <= HALF:
                raise PropertyViolation("block-coordinates", "block %d (%s): written coordinates differ from the "
                                        "exchange map of the input molecule by %.3e" % (b, nm, err))
        else:
            small += 1
            a_con = positions(ali.start)
            e_con = positions(ali.end)
            d_con = np.linalg.norm(e_con - a_con[0], axis=1)
            d_out = np.linalg.norm(got - coords[0], axis=1)
            if not np.abs(d_out - s * d_con).max() <= 2e-3:
                raise PropertyViolation("block-small-reference", "block %d (%s, %d-atom start): distance to the start "
                                        "atom differs from s x construction by %.3e"
                                        % (b, nm, nstart, np.abs(d_out - s * d_con).max()))
            if nstart == 2:
                u0 = (a_con[1] - a_con[0]) / np.linalg.norm(a_con[1] - a_con[0])
                u1 = (coords[1] - coords[0]) / np.linalg.norm(coords[1] - coords[0])
                al0 = (e_con - a_con[0]) @ u0
                al1 = (got - coords[0]) @ u1
                if not np.abs(al1 - s * al0).max() <= 4e-3:
                    raise PropertyViolation("block-small-reference", "block %d (%s): coordinate along the bond differs "
                                            "from s x construction by %.3e" % (b, nm, np.abs(al1 - s * al0).max()))
    mapped_seq = [nm for nm, _, _ in exp_blocks]
    runs = [x for i, x in enumerate(mapped_seq) if i == 0 or mapped_seq[i - 1] != x]
    interleaved = len(runs) > len(set(runs))
    skipped = any(nm not in complete for nm, _, _ in instances)
    big = any(len(c) >= 3 for nm, c, _ in exp_blocks)
    return {"nontrivial": interleaved and skipped and big,
            "classes": ["aligned" if case["align"] else "not-aligned", "box:" + case["box_kind"],
                        "attach:" + case["attach"], "start:" + ("re-assigned" if case.get("restart") else "from-system"), "written:" + (case.get("repeat") or "once"), "small-start" if small else "no-small-start",
                        "error:" + str(ep), "interleaved" if interleaved else "blocks",
                        "system:" + case.get("system_route", "from_files")],
            "sample": {"sequence": case["sequence"], "with_end": case["with_end"], "load": case["load"],
                       "scale": s, "align": case["align"], "sizes": {nm: [gen.spec_n(sp["start"]), gen.spec_n(sp["end"])]
                                                                     for nm, sp in species.items()}}}


# ------------------------------------------------------------------ shipped BMIM/BF4 box
def shipped_cases(tier, seed):
    cases = [{"ends": ["BMIM", "BF4"], "scale": 0.5, "align": True, "seed": int(seed)},
             {"ends": ["BMIM"], "scale": 1.0, "align": False, "seed": int(seed) + 1},
             {"ends": ["BF4", "BMIM"], "scale": 0.3, "align": False, "seed": int(seed) + 2}]
    return cases, True


def check_shipped(case):
    D = env.DATA
    f = lambda n: os.path.join(D, n)     # noqa: E731
    old = Alignment.STEPS_FACTOR
    Alignment.STEPS_FACTOR = 20
    try:
        np.random.seed(case["seed"] % (2 ** 32))
        man = lib("manager", Manager.from_files, f("system_bmimbf4_cg.gro"), f("BMIM_CG.itp"), f("BF4_CG.itp"))
        for nm in case["ends"]:
            lib("end", man.add_end_molecule, Molecule.from_files(f(nm + "_AA.gro"), f(nm + "_AA.itp")))
        if case["align"]:
            with step_cap():
                lib("align", man.align_molecules)
        lib("maps", man.calculate_exchange_maps, case["scale"])
        out = env.fresh_path(".gro")
        lib("extrapolate", man.extrapolate_system, out)
    finally:
        Alignment.STEPS_FACTOR = old
    inp = indep.read_gro(f("system_bmimbf4_cg.gro"))
    res = read_output(out)
    if res["title"].rstrip() != inp["title"].rstrip() or not np.abs(res["box"] - inp["box"]).max() <= 5e-6:
        raise PropertyViolation("header", "title/box differ: %r %r" % (res["title"], res["box"].tolist()))
    ends = {nm: indep.read_gro(f(nm + "_AA.gro"))["records"] for nm in case["ends"]}
    pos = 0
    recs = res["records"]
    nblocks = 0
    for residue in indep.split_residues(inp["records"]):
        nm = residue[0][1]
        if nm not in ends:
            continue
        tgt = ends[nm]
        block = recs[pos:pos + len(tgt)]
        if [(r[1], r[2]) for r in block] != [(r[1], r[2]) for r in tgt]:
            raise PropertyViolation("block-names", "block %d: expected a %s molecule" % (nblocks, nm))
        if set(r[0] for r in block) != {residue[0][0]}:
            raise PropertyViolation("block-resids", "block %d: residue numbers %r, input %d"
                                    % (nblocks, sorted(set(r[0] for r in block)), residue[0][0]))
        got = np.array([r[4:7] for r in block], float)
        coords = np.array([r[4:7] for r in residue], float)
        ali = man.molecule_correspondence[nm]
        if len(coords) >= 3:
            spec = {"name": nm}
            mol = ali.start.copy()
            mol.atoms_positions = coords
            exp = positions(ali.exchange_map(mol))
            if not np.abs(got - exp).max() <= HALF:
                raise PropertyViolation("block-coordinates", "block %d (%s) differs from the exchange map by %.3e"
                                        % (nblocks, nm, np.abs(got - exp).max()))
        else:
            d_con = np.linalg.norm(positions(ali.end) - positions(ali.start)[0], axis=1)
            d_out = np.linalg.norm(got - coords[0], axis=1)
            if not np.abs(d_out - case["scale"] * d_con).max() <= 2e-3:
                raise PropertyViolation("block-small-reference", "block %d (%s): distances to the bead differ by %.3e"
                                        % (nblocks, nm, np.abs(d_out - case["scale"] * d_con).max()))
        pos += len(tgt)
        nblocks += 1
    if pos != len(recs):
        raise PropertyViolation("atom-count", "%d atoms written, expected %d" % (len(recs), pos))
    for k, r in enumerate(recs):
        if r[3] != (k + 1) % 100000:
            raise PropertyViolation("atom-numbers", "atom %d carries number %d" % (k + 1, r[3]))
    return {"nontrivial": True, "classes": ["shipped"], "sample": dict(case, blocks=nblocks, atoms=len(recs))}


# ------------------------------------------------------------------ a system beyond five-digit atom numbers (thorough)
def large_cases(tier, seed):
    return [{"molecules": 30000, "seed": int(seed)}], True


def check_large(case):
    rng = np.random.default_rng(case["seed"])
    A = {"name": "LA", "edges": [[0, 1], [1, 2]], "residues": [["LAS", 1, ["C1", "C2", "C3"]]],
         "coords": [[0, 0, 0], [0.3, 0.05, 0], [0.5, 0.3, 0.1]]}
    Ae = {"name": "LA", "edges": [[0, 1], [1, 2], [2, 3]], "residues": [["LAE", 1, ["N1", "N2", "N3", "N4"]]],
          "coords": [[0, 0, 0.05], [0.15, 0.05, 0], [0.3, 0.1, 0.05], [0.45, 0.3, 0.1]]}
    B = {"name": "LB", "edges": [], "residues": [["LBS", 1, ["Q1"]]], "coords": [[0, 0, 0]]}
    Be = {"name": "LB", "edges": [[0, 1], [0, 2]], "residues": [["LBE", 1, ["O1", "O2", "O3"]]],
          "coords": [[0, 0, 0], [0.1, 0, 0], [0, 0.1, 0]]}
    n = case["molecules"]
    kinds = rng.integers(0, 2, n)
    records = []
    inst = []
    for m in range(n):
        spec = A if kinds[m] == 0 else B
        shift = np.round(rng.uniform(0, 60, 3), 3)
        R = gen.random_rotation(rng)
        coords = np.round(np.array(spec["coords"]) @ R.T + shift, 3)
        for k, an in enumerate(spec["residues"][0][2]):
            records.append((m + 1, spec["residues"][0][0], an, len(records) + 1) + tuple(float(c) for c in coords[k]))
        inst.append((spec["name"], coords, m + 1))
    gro = env.fresh_path(".gro")
    indep.write_gro(gro, "large system", records, [60.0, 60.0, 60.0])
    from vlib.build import write_spec_itp
    man = lib("manager", Manager.from_files, gro, write_spec_itp(A), write_spec_itp(B))
    lib("end", man.add_end_molecule, build_molecule(Ae))
    lib("end", man.add_end_molecule, build_molecule(Be))
    np.random.seed(case["seed"] % (2 ** 32))
    lib("maps", man.calculate_exchange_maps, 0.8)
    out = env.fresh_path(".gro")
    lib("extrapolate", man.extrapolate_system, out)
    res = read_output(out)
    recs = res["records"]
    exp_n = sum(4 if nm == "LA" else 3 for nm, _, _ in inst)
    if len(recs) != exp_n or res["natoms"] != exp_n:
        raise PropertyViolation("atom-count", "%d atoms written (header %d), expected %d" % (len(recs), res["natoms"], exp_n))
    for k, r in enumerate(recs):
        if k + 1 <= 99999:
            if r[3] != k + 1:
                raise PropertyViolation("atom-numbers", "atom %d carries number %d" % (k + 1, r[3]))
        elif not 0 <= r[3] <= 99999:
            raise PropertyViolation("atom-numbers", "atom %d carries number %d" % (k + 1, r[3]))
    pos = 0
    check_idx = set(int(v) for v in rng.integers(0, n, 1500)) | set(range(20)) | set(range(n - 20, n))
    for m, (nm, coords, rid) in enumerate(inst):
        espec = Ae if nm == "LA" else Be
        ne = len(espec["coords"])
        block = recs[pos:pos + ne]
        pos += ne
        if [(r[1], r[2]) for r in block] != [(espec["residues"][0][0], an) for an in espec["residues"][0][2]]:
            raise PropertyViolation("block-names", "block %d is not a %s molecule" % (m, nm))
        if set(r[0] for r in block) != {rid % 100000}:
            raise PropertyViolation("block-resids", "block %d: residue numbers %r, input %d" % (m, sorted(set(r[0] for r in block)), rid))
        if m in check_idx and nm == "LA":
            mol = build_molecule(A, coords=coords, resids=[rid])
            exp = positions(man.molecule_correspondence["LA"].exchange_map(mol))
            got = np.array([r[4:7] for r in block], float)
            if not np.abs(got - exp).max() <= HALF:
                raise PropertyViolation("block-coordinates", "block %d differs from the exchange map by %.3e"
                                        % (m, np.abs(got - exp).max()))
    return {"units": (n, n), "classes": ["large"], "sample": {"molecules": n, "atoms_in": len(records), "atoms_out": exp_n}}


# ------------------------------------------------------------------ long uninterrupted runs of a multi-residue species
def run_cases(tier, seed):
    runs = [255, 256, 257, 300, 511, 513, 1025, 2049] if tier == "thorough" else [257, 513]
    return [{"run": r, "nres": 2 + (i % 2), "seed": int(seed) * 131 + i, "tail": [0, 2, 5][i % 3]} for i, r in enumerate(runs)], True


def check_runs(case):
    """One species with several residues per molecule, `run` instances in a row (batch sizes such as 256, 512, ...
    are typical of read-ahead code), every written molecule compared with its own input molecule."""
    rng = np.random.default_rng(case["seed"])
    nres = case["nres"]
    rn_s = ["DA", "DB", "DC"][:nres]
    sizes_s = [1, 2, 1][:nres]
    sizes_e = [2, 3, 2][:nres]

    def spec(name, sizes, tag, step):
        names, residues, k = [], [], 0
        for r, sz in enumerate(sizes):
            nm = ["%s%d" % (tag, k + i + 1) for i in range(sz)]
            residues.append([rn_s[r], r + 1, nm])
            k += sz
        n = k
        coords = [[step * i, 0.07 * (i % 2), 0.05 * (i % 3)] for i in range(n)]
        return {"name": name, "edges": [[i, i + 1] for i in range(n - 1)], "residues": residues, "coords": coords}
    D, De = spec("DIM", sizes_s, "C", 0.35), spec("DIM", sizes_e, "N", 0.16)
    ION = {"name": "ION", "edges": [], "residues": [["IO", 1, ["Q1"]]], "coords": [[0, 0, 0]]}
    IONe = {"name": "ION", "edges": [[0, 1]], "residues": [["IO", 1, ["O1", "O2"]]], "coords": [[0, 0, 0], [0.1, 0, 0]]}
    layout = ["ION"] * 2 + ["DIM"] * case["run"] + ["ION"] + ["DIM"] * case["tail"] + ["ION"]
    records, inst = [], []
    resid = int(rng.integers(1, 50))
    for nm in layout:
        sp = D if nm == "DIM" else ION
        shift = np.round(rng.uniform(0, 40, 3), 3)
        coords = np.round(np.array(sp["coords"]) @ gen.random_rotation(rng).T + shift, 3)
        rids, k = [], 0
        for rn, _, names in sp["residues"]:
            resid += 1
            rids.append(resid)
            for an in names:
                records.append((resid, rn, an, len(records) + 1) + tuple(float(c) for c in coords[k]))
                k += 1
        inst.append((nm, coords, rids))
    gro = env.fresh_path(".gro")
    indep.write_gro(gro, "long runs", records, [40.0, 40.0, 40.0])
    from vlib.build import write_spec_itp
    man = lib("manager", Manager.from_files, gro, write_spec_itp(D), write_spec_itp(ION))
    lib("end", man.add_end_molecule, build_molecule(De))
    lib("end", man.add_end_molecule, build_molecule(IONe))
    np.random.seed(case["seed"] % (2 ** 32))
    lib("maps", man.calculate_exchange_maps, 0.7)
    out = env.fresh_path(".gro")
    lib("extrapolate", man.extrapolate_system, out)
    recs = read_output(out)["records"]
    exp_n = sum(sum(sizes_e) if nm == "DIM" else 2 for nm, _, _ in inst)
    if len(recs) != exp_n:
        raise PropertyViolation("atom-count", "run of %d: %d atoms written, expected %d" % (case["run"], len(recs), exp_n))
    pos = 0
    for m, (nm, coords, rids) in enumerate(inst):
        espec = De if nm == "DIM" else IONe
        sspec = D if nm == "DIM" else ION
        ne = len(espec["coords"])
        block = recs[pos:pos + ne]
        pos += ne
        exp_names = [(rn, an) for rn, _, names in espec["residues"] for an in names]
        if [(r[1], r[2]) for r in block] != exp_names:
            raise PropertyViolation("block-names", "run of %d: block %d is not a %s molecule" % (case["run"], m, nm))
        exp_rids = [rids[r] for r, (_, _, names) in enumerate(espec["residues"]) for _ in names]
        if [r[0] for r in block] != exp_rids:
            raise PropertyViolation("block-resids", "run of %d molecules of %d residues: block %d carries residue numbers %r, "
                                    "its input molecule has %r" % (case["run"], nres, m, [r[0] for r in block], exp_rids),
                                    cls="block-resids:long-run")
        if len(sspec["coords"]) >= 3:
            mol = build_molecule(sspec, coords=coords, resids=rids)
            exp = positions(man.molecule_correspondence[nm].exchange_map(mol))
            got = np.array([r[4:7] for r in block], float)
            if not np.abs(got - exp).max() <= HALF:
                raise PropertyViolation("block-coordinates", "run of %d: block %d differs from the exchange map of its input "
                                        "molecule by %.3e" % (case["run"], m, np.abs(got - exp).max()),
                                        cls="block-coordinates:long-run")
    return {"units": (len(inst), len(inst)), "classes": ["run:%d" % case["run"], "residues:%d" % nres],
            "sample": dict(case, molecules=len(inst), atoms_out=exp_n)}


# ------------------------------------------------------------------ an output whose atom count needs six digits
def bigout_cases(tier, seed):
    sizes = [1000] if tier != "thorough" else [1000, 999, 1001]
    return [{"end_atoms": n, "molecules": 100, "seed": int(seed) + i} for i, n in enumerate(sizes)], True


def check_bigout(case):
    """Few input molecules, a large end-resolution molecule: 99 900 / 100 000 / 100 100 written atoms (the count is filled
    in on close and no longer fits five digits)."""
    rng = np.random.default_rng(case["seed"])
    ne = case["end_atoms"]
    S = {"name": "BIG", "edges": [[0, 1], [1, 2]], "residues": [["BGS", 1, ["C1", "C2", "C3"]]],
         "coords": [[0, 0, 0], [0.4, 0.1, 0], [0.7, 0.4, 0.2]]}
    epos = np.cumsum(rng.normal(0, 0.05, (ne, 3)), axis=0) + [0.35, 0.2, 0.1]
    E = {"name": "BIG", "edges": [[i, i + 1] for i in range(ne - 1)], "residues": [["BGE", 1, ["A%d" % (i % 9000) for i in range(ne)]]],
         "coords": np.round(epos, 3).tolist()}
    W = {"name": "SOL", "residues": [["SOL", 1, ["OW"]]], "coords": [[0, 0, 0]]}
    records, inst = [], []
    for m in range(case["molecules"]):
        shift = np.round(rng.uniform(0, 50, 3), 3)
        coords = np.round(np.array(S["coords"]) @ gen.random_rotation(rng).T + shift, 3)
        for k, an in enumerate(S["residues"][0][2]):
            records.append((m + 1, "BGS", an, len(records) + 1) + tuple(float(c) for c in coords[k]))
        inst.append(coords)
        if m % 10 == 0:
            records.append((m + 1000, "SOL", "OW", len(records) + 1, 1.0, 2.0, 3.0))
    gro = env.fresh_path(".gro")
    indep.write_gro(gro, "few molecules, many atoms out", records, [50.0, 50.0, 50.0])
    from vlib.build import write_spec_itp
    man = lib("manager", Manager.from_files, gro, write_spec_itp(S))
    lib("end", man.add_end_molecule, build_molecule(E))
    np.random.seed(case["seed"] % (2 ** 32))
    lib("maps", man.calculate_exchange_maps, 0.6)
    out = env.fresh_path(".gro")
    lib("extrapolate", man.extrapolate_system, out)
    exp_n = ne * case["molecules"]
    with open(out, "rb") as f:
        raw = f.read().split(b"\n")
    widths = set(len(l) for l in raw[2:2 + exp_n])
    if len(widths) != 1:
        raise PropertyViolation("output-format", "%d atoms written: atom lines have byte lengths %r (header line %r)"
                                % (exp_n, sorted(widths), raw[1][:20]), cls="output-format:line-lengths")
    res = read_output(out)
    recs = res["records"]
    if len(recs) != exp_n or res["natoms"] != exp_n:
        raise PropertyViolation("atom-count", "%d atoms written (header %r), expected %d" % (len(recs), res["natoms"], exp_n))
    for k in list(range(0, 5)) + list(range(99990, min(exp_n, 100012))) + [exp_n - 1]:
        want = k + 1
        if want <= 99999 and recs[k][3] != want or not 0 <= recs[k][3] <= 99999:
            raise PropertyViolation("atom-numbers", "atom %d carries number %d" % (want, recs[k][3]))
    emap = man.molecule_correspondence["BIG"].exchange_map
    for m in (0, 1, case["molecules"] // 2, case["molecules"] - 1):
        mol = build_molecule(S, coords=inst[m], resids=[m + 1])
        exp = positions(emap(mol))
        got = np.array([r[4:7] for r in recs[m * ne:(m + 1) * ne]], float)
        if not np.abs(got - exp).max() <= HALF:
            raise PropertyViolation("block-coordinates", "molecule %d of the large output differs from the exchange map by %.3e"
                                    % (m, np.abs(got - exp).max()))
        if set(r[0] for r in recs[m * ne:(m + 1) * ne]) != {m + 1}:
            raise PropertyViolation("block-resids", "molecule %d of the large output: residue numbers %r" % (m, sorted(set(r[0] for r in recs[m * ne:(m + 1) * ne]))[:4]))
    return {"units": (case["molecules"], case["molecules"]), "classes": ["atoms-out:%d" % exp_n],
            "sample": dict(case, atoms_out=exp_n)}


SUBCHECKS = [
    Sub("generated", check, strategy=lambda tier: system_case(tier), quick=960, thorough=18000,
        min_share={"aligned": 0.12, "small-start": 0.1, "box:triclinic": 0.08}),
    Sub("shipped", check_shipped, enumerate=shipped_cases, note="shipped BMIM/BF4 box, three configurations"),
    Sub("runs", check_runs, enumerate=run_cases,
        note="a multi-residue species in uninterrupted runs of 257 / 513 (quick) and 255..2049 (thorough) molecules"),
    Sub("bigout", check_bigout, enumerate=bigout_cases,
        note="100 input molecules mapped to a 1000-atom molecule each: 100 000 written atoms (six-digit count on close)"),
    Sub("large", check_large, enumerate=large_cases, tiers=("thorough",),
        note="one system of 30000 molecules / >100000 written atoms: atom numbers beyond five digits"),
]
