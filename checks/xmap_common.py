"""Generators and oracle helpers shared by the exchange-map checks (C01-C05)."""
import math

import numpy as np
from hypothesis import strategies as st

from vlib import env, gen  # noqa: F401
from vlib.build import build_molecule, lib, positions
from vlib.report import PropertyViolation

import gaddlemaps

REF_KINDS = ("tree", "tree", "chain", "star", "cyclic", "forest")
GEOMS = ["generic", "generic", "generic", "axis-x", "axis-y", "axis-z", "diagonal",
         "integer", "mixed", "near-collinear"]


def anchors_of(n, edges):
    return [a for a, _, _ in gen.anchor_triples(n, edges)]


@st.composite
def ref_topology(draw, n, name="REF", nres=1, kinds=REF_KINDS):
    """Reference topology with >=1 anchor (atom with two bonded neighbours)."""
    for _ in range(5):
        top = draw(gen.mol_topology(name, n, kinds=kinds, nres=nres, hydrogens="some", resid_mode="arbitrary"))
        if n < 3 or anchors_of(n, top["edges"]):
            return top
    top = draw(gen.mol_topology(name, n, kinds=("tree",), nres=nres))
    return top


def classify_anchors(pos, edges):
    """anchor -> 'generic' | 'collinear' | 'grey'"""
    out = {}
    for a, n1, n2 in gen.anchor_triples(len(pos), edges):
        if gen.exact_collinear(pos[a], pos[n1], pos[n2]):
            out[a] = "collinear"
        elif gen.triple_sine(pos[a], pos[n1], pos[n2]) >= 1e-3:
            out[a] = "generic"
        elif gen.triple_sine(pos[a], pos[n1], pos[n2]) >= 5e-6:
            out[a] = "near"          # clearly not collinear in double precision, but close
        else:
            out[a] = "grey"
    return out


def ref_geometry(n, edges, cls, rng):
    """Coordinates of the reference in geometry class cls."""
    if cls == "generic" or n < 3:
        return gen.walk_geometry(n, edges, rng)
    if cls in gen.LINE_CLASSES:
        return gen.line_geometry(n, cls, rng)
    triples = gen.anchor_triples(n, edges)
    if cls == "near-collinear":
        # generic everywhere except one anchor whose two frame neighbours make an angle
        # with sine in [1e-5, 1e-3] (straight or folded): NOT collinear, full equality applies
        for _ in range(200):
            pos = gen.walk_geometry(n, edges, rng, spread=0.5)
            a, n1, n2 = triples[int(rng.integers(0, len(triples)))]
            u = gen.unit(rng)
            w = np.cross(u, gen.unit(rng))
            w /= np.linalg.norm(w)
            phi = 10.0 ** rng.uniform(-5, -3)
            sign = -1.0 if rng.random() < 0.7 else 1.0
            pos[n1] = pos[a] + rng.uniform(0.1, 0.5) * u
            pos[n2] = pos[a] + rng.uniform(0.1, 0.5) * (sign * np.cos(phi) * u + np.sin(phi) * w)
            dmat = np.sqrt(((pos[:, None] - pos[None]) ** 2).sum(-1)) + np.eye(n) * 10
            if dmat.min() < 1e-2:
                continue
            kinds = classify_anchors(pos, edges)
            if "grey" in kinds.values() or "near" not in kinds.values():
                continue
            return pos
        raise RuntimeError("near-collinear geometry failed")
    # mixed: generic everywhere except one anchor triple put exactly on a lattice line
    for _ in range(200):
        pos = gen.walk_geometry(n, edges, rng)
        a, n1, n2 = triples[int(rng.integers(0, len(triples)))]
        d = gen.line_direction(str(rng.choice(gen.LINE_CLASSES)), rng).astype(float)
        pa = np.round(pos[a] * 8)
        k1, k2 = 0, 0
        while k1 == 0 or k2 == 0 or k1 == k2:
            k1, k2 = (int(v) for v in rng.integers(-3, 4, size=2))
        pos[a] = pa / 8
        pos[n1] = (pa + k1 * d) / 8
        pos[n2] = (pa + k2 * d) / 8
        dmat = np.sqrt(((pos[:, None] - pos[None]) ** 2).sum(-1)) + np.eye(n) * 10
        if dmat.min() < 1e-2:
            continue
        if "grey" in classify_anchors(pos, edges).values():
            continue
        return pos
    raise RuntimeError("mixed geometry failed")


def target_geometry(m, ref_pos, placement, rng):
    ref_pos = np.asarray(ref_pos, float)
    out = np.zeros((m, 3))
    for k in range(m):
        pl = placement
        if placement == "mix":
            pl = ["near", "near", "far", "ontop"][int(rng.integers(0, 4))]
        base = ref_pos[int(rng.integers(0, len(ref_pos)))]
        if pl == "near":
            out[k] = base + rng.uniform(-0.3, 0.3, 3)
        elif pl == "far":
            out[k] = ref_pos.mean(axis=0) + rng.uniform(-20, 20, 3)
        else:
            out[k] = base if rng.random() < 0.5 else base + rng.uniform(-1e-3, 1e-3, 3)
    return out


@st.composite
def scale_factor(draw):
    k = draw(st.integers(0, 3))
    if k == 0:
        return 1.0
    if k == 1:
        return draw(st.sampled_from([0.5, 0.25, 2.0, 0.1]))
    return draw(st.floats(0.01, 2.0, allow_nan=False))


@st.composite
def ref_tgt_case(draw, nref=(3, 25), ntgt=(1, 30), geoms=GEOMS, nres_max=1,
                 placements=("near", "mix", "mix", "far", "ontop")):
    n = draw(st.integers(*nref))
    m = draw(st.integers(*ntgt))
    nres = draw(st.integers(1, max(1, min(nres_max, n, m))))
    ref = draw(ref_topology(n, "REF", nres=nres))
    tgt = draw(gen.mol_topology("TGT", m, kinds=("tree", "cyclic", "forest", "chain"),
                                nres=nres, resid_mode="arbitrary"))
    cls = draw(st.sampled_from(geoms)) if n >= 3 else "generic"
    rng = np.random.default_rng(draw(gen.SEEDS))
    rpos = ref_geometry(n, ref["edges"], cls, rng)
    special = None
    if cls == "generic" and n >= 3 and draw(st.integers(0, 5)) == 0:
        # bonds of a special length: within 1e-7 .. 1e-5 of exactly 1 (the unit of length), or exactly 1
        special = "unit-bonds"
        delta = 0.0 if rng.random() < 0.2 else float(rng.choice([-1, 1])) * 10.0 ** rng.uniform(-7, -5)
        new = rpos.copy()
        order, seen = [0], {0}
        nbr = {}
        for a_, b_ in ref["edges"]:
            nbr.setdefault(a_, []).append(b_)
            nbr.setdefault(b_, []).append(a_)
        while order:
            u_ = order.pop()
            for v_ in nbr.get(u_, []):
                if v_ not in seen:
                    seen.add(v_)
                    d_ = rpos[v_] - rpos[u_]
                    new[v_] = new[u_] + d_ / np.linalg.norm(d_) * (1.0 + delta)
                    order.append(v_)
        dm = np.sqrt(((new[:, None] - new[None]) ** 2).sum(-1)) + np.eye(n) * 10
        if dm.min() >= 1e-2 and gen.min_anchor_sine(new, ref["edges"]) >= 1e-3:
            rpos = new
        else:
            special = None
    if draw(st.integers(0, 3)) == 0 and cls != "near-collinear":   # shift the whole pair to box scale
        rpos = rpos + np.round(rng.uniform(-50, 50, 3) * 8) / 8
    elif draw(st.integers(0, 5)) == 0 and cls != "near-collinear":
        # anywhere a coordinate file can place it (-999.999 .. 9999.999 nm)
        special = (special or "") + "+far"
        rpos = rpos + np.round(rng.uniform(-900, 9900, 3) * 8) / 8
    placement = draw(st.sampled_from(placements))
    if cls == "near-collinear":
        placement = "near"           # keeps the conditioning of the near-collinear frame inside the tolerance
    tpos = target_geometry(m, rpos, placement, rng)
    # the target's coordinates may be held in another dtype (assigned through the public attribute): float32 as many
    # trajectory readers deliver them, or whole numbers in an integer array
    tdt = draw(st.sampled_from([None] * 6 + ["float32", "int"])) if cls != "near-collinear" else None
    if tdt == "float32":
        tpos = tpos.astype(np.float32).astype(float)
    elif tdt == "int":
        tpos = np.round(tpos)                # whole numbers of nm
    return {"geom": cls, "s": draw(scale_factor()), "tgt_dtype": tdt, "special": special,
            "late_bond": draw(st.one_of(st.none(), st.none(), st.none(), st.integers(0, 1000))),
            "ref": gen.with_coords(ref, rpos), "tgt": gen.with_coords(tgt, tpos)}


def build_pair(case):
    late = case.get("late_bond")
    if late is not None and len(case["ref"]["edges"]) >= 2:
        # the reference topology is loaded without one of its bonds, USED once (a throw-away map), and the missing bond
        # is then added in place with AtomTop.connect - called on the lower- or the higher-numbered atom
        drop = case["ref"]["edges"][late % len(case["ref"]["edges"])]
        ref = build_molecule(dict(case["ref"], edges=[e for e in case["ref"]["edges"] if e != drop]))
        tgt0 = build_molecule(case["tgt"])
        try:
            with env.quiet():
                gaddlemaps.ExchangeMap(ref, tgt0, 1.0)(ref)
        except Exception:      # noqa: BLE001   (e.g. no atom with two bonds yet)
            pass
        top = ref.molecule_top
        i, j = (drop[0], drop[1]) if late % 2 else (drop[1], drop[0])
        lib("connect", top[i].connect, top[j])
    else:
        ref = build_molecule(case["ref"])
    tgt = build_molecule(case["tgt"])
    tdt = case.get("tgt_dtype")
    if tdt:
        tgt.atoms_positions = np.array(case["tgt"]["coords"], dtype=np.float32 if tdt == "float32" else np.int64)
    return ref, tgt


def make_map(ref, tgt, s, clause="map-construct"):
    return lib(clause, gaddlemaps.ExchangeMap, ref, tgt, s)


def oracle_assignment(case):
    """For every target atom: (index of nearest anchor, tie?, all anchors)."""
    rpos = np.array(case["ref"]["coords"], float)
    tpos = np.array(case["tgt"]["coords"], float)
    n = len(rpos)
    if n >= 3:
        anchors = anchors_of(n, case["ref"]["edges"])
    else:
        anchors = [0]
    out = []
    for p in tpos:
        d = [math.dist(p, rpos[a]) for a in anchors]
        k = min(range(len(d)), key=lambda i: (d[i], anchors[i]))
        ties = [anchors[i] for i in range(len(d))
                if abs(d[i] - d[k]) <= 1e-9 * max(1.0, d[k])]
        out.append((anchors[k], ties))
    return anchors, out


def equivalences_of(M, edit="clear"):
    """target atom index -> anchor index, from the public `equivalences`.  The returned dictionary is then edited
    the way a caller may edit what a property hands out: its lists emptied (edit="clear") or put in another order
    (edit="reverse") in place."""
    eq = M.equivalences
    inv = {}
    for anchor, tlist in eq.items():
        for t in tlist:
            inv[int(t)] = int(anchor)
    # the caller owns what a property hands out: emptying the returned dictionary (e.g. while filtering it) must not
    # reach into the map
    try:
        for tlist in eq.values():
            if isinstance(tlist, list):
                if edit == "reverse":
                    tlist.reverse()
                    tlist.append(tlist[0] if tlist else 0)
                else:
                    del tlist[:]
        eq.clear()
    except (TypeError, AttributeError):
        pass
    return inv


def check_equivalences(M, assign, clause="equivalences"):
    inv = equivalences_of(M)
    if sorted(inv) != list(range(len(assign))):
        raise PropertyViolation(clause, "equivalences do not cover the target atoms: %r" % (inv,))
    chosen = []
    for t, (a, ties) in enumerate(assign):
        if inv[t] not in ties:
            raise PropertyViolation(clause, "target atom %d assigned to reference atom %d, "
                                    "nearest anchor is %d (ties %r)" % (t, inv[t], a, ties))
        chosen.append(inv[t])
    return chosen


def prior_call(M, case, seed):
    """Optionally use the map on another configuration first (the normal use of a map):
    results must not depend on it.  Returns True when a call was made."""
    if seed % 2 == 0:
        return False
    rng = np.random.default_rng(seed)
    rpos = np.array(case["ref"]["coords"], float)
    other = rpos @ gen.random_rotation(rng).T + rng.uniform(-5, 5, 3)
    mol = build_molecule(case["ref"], coords=other)
    lib("prior-call", M, mol)
    return True


def disturb_construction(ref, tgt, seed, what):
    """Changes the very objects a map was built from (after construction, possibly before its first use)."""
    rng = np.random.default_rng(seed)
    with env.quiet():
        if what in ("tgt", "both"):
            tgt.move(rng.uniform(-4, 4, 3))
            tgt.rotate(gen.random_rotation(rng))
        if what in ("ref", "both"):
            ref.atoms_positions = np.array(ref.atoms_positions, float) @ gen.random_rotation(rng).T + rng.uniform(-4, 4, 3) \
                + rng.normal(0, 0.05, (len(ref), 3))
