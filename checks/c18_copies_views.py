"""C18  Copies are isolated, views write through, rigid operations preserve shape.

Model-based operation sequences over a pool of library objects.  The model is a
set of value cells (one per atom record) that knows about *views* (same cells)
and *copies* (new cells) only through the documented semantics; after every
operation every pooled object is compared with its cells."""
import numpy as np
from hypothesis import strategies as st

from vlib import env, gen, indep  # noqa: F401
from vlib.build import build_molecule, lib, spec_records
from vlib.report import Discard, HarnessError, PropertyViolation
from vlib.runner import Sub

from gaddlemaps import Alignment
from gaddlemaps.components import Atom, AtomGro, Molecule, Residue, System

PROPERTY = "C18"
LEVEL = "exploration"
RULE = ("operation sequences (up to 40) over a pool seeded with a single- or multi-residue molecule built from a spec, "
        "the molecules handed out by a System for a generated file, and the molecules stored by an Alignment (given to the "
        "constructor or re-assigned through the start / end setters): copy, "
        "deep_copy, copy / deep_copy / Molecule() with the residues of another pooled molecule, residue / atom views (indexing with non-negative and negative indices, iteration), Molecule.atoms / Residue.atoms copies, move, move_to, "
        "rotate, assignment of positions, velocities (array or None), atom numbers, residue numbers, names (deep copies "
        "and unshared originals), assignment through views, assignment of a position read from another object, one "
        "array assigned to two objects. Non-trivial = a copy followed by operations on both the copy and its source on a "
        "multi-residue molecule. Distinct = sha1 of the case JSON.")
ASSUMPTIONS = [
    "the harness never mutates an array after handing it to the library; element-wise in-place updates are made only "
    "through live views (atom.position[k] += d) and never on arrays the harness itself shared between two objects",
    "names are only changed on objects whose topology is not shared (copy() shares the topology by design; only "
    "deep_copy() promises isolated names)",
    "observation is through the public coordinate-level attributes (atoms_positions, atoms_velocities, atoms_ids, "
    "resids/resid, resnames/resname, atom names)",
]

FIELDS = ["pos", "vel", "atomid", "resid"]


@st.composite
def op_strategy(draw):
    k = draw(st.sampled_from(["copy", "copy", "deep_copy", "view_res", "view_atom", "atoms_list", "move", "move_to",
                              "rotate", "set_pos", "set_vel", "set_ids", "set_resids", "rename", "atom_set",
                              "iter_set", "share_pos", "same_array", "inplace", "inplace", "read_center", "read_center",
                              "copy_from", "copy_from", "construct", "bad_rotate", "bad_rotate", "system_again", "system_again"]))
    a = draw(st.integers(0, 30))
    b = draw(st.integers(0, 30))
    return [k, a, b, draw(gen.SEEDS), draw(st.sampled_from(FIELDS)), draw(st.booleans())]


@st.composite
def case_strategy(draw, max_ops=40):
    nres = draw(st.integers(1, 3))
    n = draw(st.integers(nres, 8))
    top = draw(gen.mol_topology("MOLA", n, kinds=("tree", "chain"), nres=nres, hydrogens="none"))
    # private residue names so that a System recognises the species
    top["residues"] = [["R%d" % k, r[1], r[2]] for k, r in enumerate(top["residues"])]
    if nres >= 2 and draw(st.integers(0, 3)) == 0:
        # two neighbouring residues whose number and name read the same once glued together (1 + "2RA", 12 + "RA")
        k = draw(st.integers(0, nres - 2))
        top["residues"][k][:2] = ["2RA", 1]
        top["residues"][k + 1][:2] = ["RA", 12]
    rng = np.random.default_rng(draw(gen.SEEDS))
    pos = gen.walk_geometry(n, top["edges"], rng)
    if draw(st.integers(0, 3)) == 0:
        pos = pos + rng.uniform(-900, 9900, 3)            # anywhere a coordinate file can place it
    vel = rng.uniform(-1, 1, (n, 3)) if draw(st.booleans()) else None
    spec = gen.with_coords(top, np.round(pos, 3), None if vel is None else np.round(vel, 4))
    return {"spec": spec, "source": draw(st.sampled_from(["spec", "system", "alignment"])),
            "ninst": draw(st.integers(2, 3)), "seed": draw(gen.SEEDS),
            "ops": draw(st.lists(op_strategy(), min_size=3, max_size=max_ops))}


class Model:
    def __init__(self):
        self.cells = {}
        self.next = 0

    def new_cell(self, rec):
        self.next += 1
        self.cells[self.next] = {"resid": rec[0], "resname": rec[1], "name": rec[2], "atomid": rec[3],
                                 "pos": np.array(rec[4:7], float),
                                 "vel": np.array(rec[7:10], float) if len(rec) == 10 else None}
        return self.next

    def clone(self, ids):
        out = []
        for i in ids:
            c = self.cells[i]
            self.next += 1
            self.cells[self.next] = {k: (None if v is None else (v.copy() if isinstance(v, np.ndarray) else v))
                                     for k, v in c.items()}
            out.append(self.next)
        return out


class Entry:
    def __init__(self, obj, kind, cells, groups=None, top_group=None, owner=None, origin=None):
        self.obj = obj
        self.kind = kind            # mol | res | agro | atom
        self.cells = cells
        self.groups = groups        # residue partition (lists of cell ids) for molecules
        self.top_group = top_group
        self.owner = owner          # index of the entry this is a view of (None = standalone)
        self.origin = origin        # index of the entry this was copied from


def observe(e):
    o = e.obj
    if e.kind == "mol":
        return {"pos": np.array(o.atoms_positions, float), "vel": o.atoms_velocities, "atomid": list(o.atoms_ids),
                "resid": [a.gro_resid for a in o], "resname": [a.resname for a in o], "name": [a.name for a in o],
                "resids": list(o.resids), "resnames": list(o.resnames), "n": len(o)}
    if e.kind == "res":
        return {"pos": np.array(o.atoms_positions, float), "vel": o.atoms_velocities, "atomid": list(o.atoms_ids),
                "resid": [a.resid for a in o], "resname": [a.resname for a in o], "name": [a.name for a in o], "n": len(o)}
    if e.kind == "agro":
        return {"pos": np.array([o.position], float), "vel": None if o.velocity is None else np.array([o.velocity]),
                "atomid": [o.atomid], "resid": [o.resid], "resname": [o.resname], "name": [o.name], "n": 1}
    return {"pos": np.array([o.position], float), "vel": None if o.velocity is None else np.array([o.velocity]),
            "atomid": [o.atomid], "resid": [o.gro_resid], "resname": [o.resname], "name": [o.name], "n": 1}


def compare(model, pool, step, op):
    for idx, e in enumerate(pool):
        try:
            with env.quiet():
                got = observe(e)
        except Exception as exc:     # noqa: BLE001
            raise PropertyViolation("observe", "step %d (%s): reading object %d (%s) raised %s: %s"
                                    % (step, op, idx, e.kind, type(exc).__name__, str(exc)[:200]))
        cells = [model.cells[i] for i in e.cells]
        who = "object %d (%s%s)" % (idx, e.kind, ", view of %d" % e.owner if e.owner is not None else
                                    (", copy of %d" % e.origin if e.origin is not None else ""))
        if got["n"] != len(cells):
            raise PropertyViolation("size", "step %d (%s): %s has %d atoms, model %d" % (step, op, who, got["n"], len(cells)))
        exp_pos = np.array([c["pos"] for c in cells])
        if not np.abs(got["pos"] - exp_pos).max() <= 1e-9:
            raise PropertyViolation("positions", "step %d (%s): coordinates of %s differ from the model by %.3e"
                                    % (step, op, who, np.abs(got["pos"] - exp_pos).max()),
                                    cls="positions:" + op)
        vels = [c["vel"] for c in cells]
        if any(v is None for v in vels):
            if got["vel"] is not None:
                raise PropertyViolation("velocities", "step %d (%s): %s has velocities, the model has none for "
                                        "some atom" % (step, op, who), cls="velocities:" + op)
        else:
            if got["vel"] is None or not np.abs(np.array(got["vel"], float) - np.array(vels)).max() <= 1e-9:
                raise PropertyViolation("velocities", "step %d (%s): velocities of %s differ from the model"
                                        % (step, op, who), cls="velocities:" + op)
        for f in ("atomid", "resid", "resname", "name"):
            exp = [c[f] for c in cells]
            if list(got[f]) != exp:
                raise PropertyViolation(f, "step %d (%s): %s of %s is %r, model %r" % (step, op, f, who, got[f], exp),
                                        cls="%s:%s" % (f, op))
        if e.kind == "mol":
            exp_resids = [model.cells[g[0]]["resid"] for g in e.groups]
            exp_resnames = [model.cells[g[0]]["resname"] for g in e.groups]
            if got["resids"] != exp_resids or got["resnames"] != exp_resnames:
                raise PropertyViolation("residue-labels", "step %d (%s): resids/resnames of %s are %r/%r, model %r/%r"
                                        % (step, op, who, got["resids"], got["resnames"], exp_resids, exp_resnames))


def check(case):
    spec = case["spec"]
    model = Model()
    pool = []
    tops = [0]

    def new_top():
        tops[0] += 1
        return tops[0]

    def add_molecule(obj, recs, top_group, origin=None):
        ids = [model.new_cell(r) for r in recs]
        groups = []
        k = 0
        for rn, ri, names in spec["residues"]:
            groups.append(ids[k:k + len(names)])
            k += len(names)
        pool.append(Entry(obj, "mol", ids, groups, top_group, origin=origin))

    base_recs = spec_records(spec)
    sysctx = None
    if case["source"] == "spec":
        add_molecule(build_molecule(spec), base_recs, new_top())
    elif case["source"] == "system":
        rng0 = np.random.default_rng(case["seed"])
        recs = []
        per = []
        resid = 0
        for inst in range(case["ninst"]):
            shift = np.round(rng0.uniform(0, 9, 3), 3)
            mine = []
            k = 0
            for rn, ri, names in spec["residues"]:
                resid += 1
                for an in names:
                    b = base_recs[k]
                    rec = (resid, rn, an, len(recs) + 1) + tuple(np.round(np.array(b[4:7]) + shift, 3)) + tuple(b[7:])
                    recs.append(rec)
                    mine.append(rec)
                    k += 1
            per.append(mine)
        gro = env.fresh_path(".gro")
        indep.write_gro(gro, "pool", recs, [10.0, 10.0, 10.0])
        from vlib.build import write_spec_itp
        syst = lib("system", System, gro, write_spec_itp(spec))
        parsed = indep.read_gro(gro)["records"]
        tg = new_top()
        k = 0
        for inst in range(case["ninst"]):
            # (the last instance through its negative index)
            mol = lib("system-index", syst.__getitem__, inst if inst < case["ninst"] - 1 or case["seed"] % 2 else -1)
            add_molecule(mol, parsed[k:k + len(base_recs)], tg)
            k += len(base_recs)
        sysctx = (syst, parsed, len(base_recs), tg)
        # ... and the first residue of the file as SystemGro hands it out (plain non-negative index)
        nfirst = len(spec["residues"][0][2])
        pool.append(Entry(lib("systemgro-index", syst.system_gro.__getitem__, 0), "res",
                          [model.new_cell(r) for r in parsed[:nfirst]]))
    else:
        tg = new_top()
        given = build_molecule(spec)
        other = build_molecule(dict(spec, name="MOLB"))
        ali = lib("alignment", Alignment, given, other)
        if case["seed"] % 2:
            # the start (or end) molecule is re-assigned through the setter with another conformation
            shifted = dict(spec, coords=(np.array(spec["coords"], float) + [0.5, -0.25, 1.0]).tolist())
            again = build_molecule(shifted if case["seed"] % 4 == 1 else dict(shifted, name="MOLB"))
            recs2 = spec_records(shifted)
            if case["seed"] % 4 == 1:
                ali.start = again
                add_molecule(again, recs2, new_top())
                add_molecule(ali.start, recs2, tops[0], origin=0)
                add_molecule(ali.end, base_recs, new_top())
            else:
                ali.end = again
                add_molecule(again, recs2, new_top())
                add_molecule(ali.end, recs2, tops[0], origin=0)
                add_molecule(ali.start, base_recs, new_top())
        else:
            add_molecule(given, base_recs, tg)
            add_molecule(ali.start, base_recs, tg, origin=0)
            add_molecule(ali.end, base_recs, new_top())
    compare(model, pool, -1, "initial")

    touched_copy = set()
    touched_src = set()
    tainted = set()      # cells whose position array object was deliberately shared by the harness
    nontrivial = False
    nres = len(spec["residues"])

    def top_group_size(g):
        return sum(1 for e in pool if e.top_group == g)        # molecules and Atom wrappers sharing the topology

    for step, op in enumerate(case["ops"]):
        kind, a, b, seed, field, flag = op
        rng = np.random.default_rng(seed)
        e = pool[a % len(pool)]
        ei = a % len(pool)
        o = e.obj
        with env.quiet():
            if kind in ("copy", "deep_copy", "atoms_list") and len(pool) < 14:
                if kind == "deep_copy" and e.kind != "mol":
                    kind = "copy"
                if kind == "atoms_list":
                    if e.kind in ("mol", "res"):
                        lst = lib("atoms", lambda: o.atoms)
                        j = b % len(lst)
                        ids = model.clone([e.cells[j]])
                        pool.append(Entry(lst[j], "atom" if e.kind == "mol" else "agro", ids,
                                          top_group=e.top_group if e.kind == "mol" else None, origin=ei))
                else:
                    new = lib(kind, getattr(o, kind))
                    ids = model.clone(e.cells)
                    if e.kind == "mol":
                        pos_of = {c: i for i, c in enumerate(e.cells)}
                        groups = [[ids[pos_of[c]] for c in g] for g in e.groups]
                        pool.append(Entry(new, "mol", ids, groups,
                                          new_top() if kind == "deep_copy" else e.top_group, origin=ei))
                    else:
                        pool.append(Entry(new, e.kind, ids, top_group=e.top_group if e.kind == "atom" else None,
                                          origin=ei))
            elif kind in ("copy_from", "construct") and e.kind == "mol" and len(pool) < 14:
                # a.copy(b.residues) / a.deep_copy(b.residues) / Molecule(top, b.residues): the topology of a with the
                # coordinates and numbers of b, isolated from both
                src = pool[b % len(pool)]
                names_ok = src.kind == "mol" and \
                    [(model.cells[c]["name"], model.cells[c]["resname"]) for c in src.cells] == \
                    [(model.cells[c]["name"], model.cells[c]["resname"]) for c in e.cells]
                if names_ok:
                    residues = src.obj.residues
                    if seed % 3 == 0:
                        residues = list(residues)
                    if kind == "construct":
                        from vlib.build import write_spec_itp
                        from gaddlemaps.components import MoleculeTop
                        spec_names = [(an, rn) for rn, ri, names in spec["residues"] for an in names]
                        if [(model.cells[c]["name"], model.cells[c]["resname"]) for c in src.cells] != spec_names:
                            compare(model, pool, step, kind)
                            continue
                        new = lib("Molecule", Molecule, MoleculeTop(write_spec_itp(spec)), residues)
                        tg = new_top()
                    elif flag:
                        new = lib("deep_copy", o.deep_copy, residues)
                        tg = new_top()
                    else:
                        new = lib("copy", o.copy, residues)
                        tg = e.top_group
                    ids = model.clone(src.cells)
                    pos_of = {c: i for i, c in enumerate(src.cells)}
                    groups = [[ids[pos_of[c]] for c in g] for g in src.groups]
                    pool.append(Entry(new, "mol", ids, groups, tg, origin=b % len(pool)))
            elif kind == "system_again" and sysctx is not None and len(pool) < 14:
                # the System is asked again for an instance it handed out before (by either index): what comes back is
                # the file's molecule, whatever was done to the one handed out earlier
                syst_, parsed_, nrec_, tg_ = sysctx
                if b % 3 == 0:
                    nfirst = len(spec["residues"][0][2])
                    pool.append(Entry(lib("systemgro-index", syst_.system_gro.__getitem__, 0), "res",
                                      [model.new_cell(r) for r in parsed_[:nfirst]]))
                    compare(model, pool, step, kind)
                    continue
                inst = a % case["ninst"]
                idx = inst - case["ninst"] if flag else inst
                again = lib("system-index", syst_.__getitem__, idx)
                add_molecule(again, parsed_[inst * nrec_:(inst + 1) * nrec_], tg_)
            elif kind == "view_res" and e.kind == "mol" and len(pool) < 14:
                k = b % len(e.groups)
                pool.append(Entry(o.residues[k], "res", list(e.groups[k]), owner=ei))
            elif kind == "view_atom" and e.kind in ("mol", "res") and len(pool) < 14:
                j = b % len(e.cells)
                jj = j - len(e.cells) if flag else j          # the same atom through a negative index
                if e.kind == "mol":
                    pool.append(Entry(lib("index", o.__getitem__, jj), "atom", [e.cells[j]], top_group=e.top_group, owner=ei))
                else:
                    pool.append(Entry(lib("index", o.__getitem__, jj), "agro", [e.cells[j]], owner=e.owner if e.owner is not None else ei))
            elif kind in ("move", "move_to", "rotate") and e.kind in ("mol", "res"):
                P = np.array([model.cells[c]["pos"] for c in e.cells])
                com = P.mean(axis=0)
                def rigid(label, fn, arg, target):
                    """True when the operation took place.  Under the warnings-as-errors style a warning raised inside the
                    operation aborts it (no verdict by itself) - but the body must then be where it was or where it was
                    going as a whole, never part moved and part not."""
                    try:
                        lib(label, fn, arg)
                        return True
                    except Discard as d:
                        if d.reason != "warning-as-error":
                            raise
                    cur = np.array(o.atoms_positions, float)
                    tol = 1e-9 + 8 * np.finfo(float).eps * max(np.abs(P).max(), np.abs(target).max())
                    if np.abs(cur - target).max() <= tol:
                        return True
                    if np.abs(cur - P).max() <= tol:
                        return False
                    raise PropertyViolation("rigid-one-body", "%s aborted by a warning left the body deformed: %d of %d atoms "
                                            "moved" % (label, int((np.abs(cur - P).max(axis=1) > tol).sum()), len(P)))
                done = True
                if kind == "move":
                    v = rng.uniform(-3, 3, 3) * (10.0 ** rng.uniform(-4, -2) if flag else 1.0)      # also small steps
                    if b % 7 == 0 and len(P) > 1:
                        # ... and steps that take part of the body across a power of ten (another width in a .gro column)
                        lim = [1e4, -1e3, 1e3, -1e2, 1e2][b // 7 % 5]
                        ax = b // 35 % 3
                        v = np.zeros(3)
                        v[ax] = lim - 0.5 * (P[:, ax].min() + P[:, ax].max())
                    newP = P + v
                    done = rigid("move", o.move, v.copy(), newP)
                elif kind == "move_to":
                    p = com + rng.uniform(-1, 1, 3) * 10.0 ** rng.uniform(-4, -2) if flag else rng.uniform(-3, 3, 3)
                    if b % 7 == 0 and len(P) > 1:
                        p = np.array(p, float)
                        p[b // 35 % 3] = [1e4, -1e3, 1e3, -1e2, 1e2][b // 7 % 5]
                    newP = P + (p - com)
                    done = rigid("move_to", o.move_to, p.copy(), newP)
                else:
                    R = gen.random_rotation(rng)
                    newP = (P - com) @ R.T + com
                    done = rigid("rotate", o.rotate, R.copy(), newP)
                    d0 = np.linalg.norm(P[:, None] - P[None], axis=-1)
                    d1 = np.linalg.norm(newP[:, None] - newP[None], axis=-1)
                    if not np.abs(d0 - d1).max() < 1e-9:
                        raise HarnessError("test-site search kept no bond length")
                if done:
                    for c, p in zip(e.cells, newP):
                        model.cells[c]["pos"] = p
                        tainted.discard(c)
            elif kind == "bad_rotate" and e.kind in ("mol", "res"):
                # error-then-continue: a matrix that cannot rotate 3-vectors is refused and leaves the object untouched
                bad = np.eye(2) if flag else np.eye(4)
                try:
                    o.rotate(bad)
                except Exception:      # noqa: BLE001
                    pass
            elif kind == "set_pos":
                if e.kind in ("mol", "res"):
                    arr = rng.uniform(-5, 5, (len(e.cells), 3))
                    o.atoms_positions = arr.copy()
                    for c, p in zip(e.cells, arr):
                        model.cells[c]["pos"] = p.copy()
                        tainted.discard(c)
                else:
                    p = rng.uniform(-5, 5, 3)
                    o.position = p.copy()
                    model.cells[e.cells[0]]["pos"] = p
                    tainted.discard(e.cells[0])
            elif kind == "set_vel":
                none = flag and e.kind != "atom"
                if e.kind in ("mol", "res"):
                    if none:
                        o.atoms_velocities = None
                        for c in e.cells:
                            model.cells[c]["vel"] = None
                    else:
                        arr = rng.uniform(-1, 1, (len(e.cells), 3))
                        o.atoms_velocities = arr.copy()
                        for c, v in zip(e.cells, arr):
                            model.cells[c]["vel"] = v.copy()
                else:
                    v = None if none else rng.uniform(-1, 1, 3)
                    o.velocity = None if v is None else v.copy()
                    model.cells[e.cells[0]]["vel"] = v
            elif kind == "set_ids":
                if e.kind in ("mol", "res"):
                    ids = [int(x) for x in rng.integers(1, 90000, len(e.cells))]
                    o.atoms_ids = list(ids)
                    for c, v in zip(e.cells, ids):
                        model.cells[c]["atomid"] = v
                else:
                    v = int(rng.integers(1, 90000))
                    o.atomid = v
                    model.cells[e.cells[0]]["atomid"] = v
            elif kind == "set_resids":
                if e.kind == "mol":
                    if flag:
                        vals = [int(x) for x in rng.integers(1, 9000, len(e.groups))]
                        o.resids = list(vals)
                    else:
                        v = int(rng.integers(1, 9000))
                        o.resids = v
                        vals = [v] * len(e.groups)
                    for g, v in zip(e.groups, vals):
                        for c in g:
                            model.cells[c]["resid"] = v
                elif e.kind == "res":
                    v = int(rng.integers(1, 9000))
                    o.resid = v
                    for c in e.cells:
                        model.cells[c]["resid"] = v
                elif e.kind == "atom":
                    pass          # a single atom of a residue cannot change its number alone (a residue has one number)
            elif kind == "rename":
                new = "N%d" % (seed % 97)
                if e.kind == "mol" and top_group_size(e.top_group) == 1 and \
                        not any(x.owner == ei for x in pool):
                    if flag and seed % 3:
                        names = ["%s%d" % (new[:3], k) for k in range(len(e.groups))]
                        o.resnames = list(names)
                        for g, nm_ in zip(e.groups, names):
                            for c in g:
                                model.cells[c]["resname"] = nm_
                    elif flag:
                        o.resnames = new
                        for c in e.cells:
                            model.cells[c]["resname"] = new
                    else:
                        j = b % len(e.cells)
                        o[j].name = new
                        model.cells[e.cells[j]]["name"] = new
                elif e.kind in ("res", "agro") and e.owner is None and not any(x.owner == ei for x in pool):
                    if e.kind == "res":
                        o.resname = new
                        for c in e.cells:
                            model.cells[c]["resname"] = new
                    else:
                        o.name = new
                        model.cells[e.cells[0]]["name"] = new
            elif kind in ("atom_set", "iter_set") and e.kind in ("mol", "res"):
                j = b % len(e.cells)
                if kind == "atom_set":
                    view = lib("index", o.__getitem__, j - len(e.cells) if flag else j)
                else:
                    view = [x for x in o][j]
                if field == "pos":
                    p = rng.uniform(-5, 5, 3)
                    view.position = p.copy()
                    model.cells[e.cells[j]]["pos"] = p
                    tainted.discard(e.cells[j])
                elif field == "vel":
                    v = rng.uniform(-1, 1, 3)
                    view.velocity = v.copy()
                    model.cells[e.cells[j]]["vel"] = v
                elif field == "atomid":
                    v = int(rng.integers(1, 90000))
                    view.atomid = v
                    model.cells[e.cells[j]]["atomid"] = v
            elif kind == "share_pos":
                src = pool[b % len(pool)]
                sj = seed % len(src.cells)
                dj = (seed // 7) % len(e.cells)
                sview = src.obj if src.kind in ("agro", "atom") else src.obj[sj]
                dview = o if e.kind in ("agro", "atom") else o[dj]
                if src.kind in ("agro", "atom"):
                    sj = 0
                if e.kind in ("agro", "atom"):
                    dj = 0
                dview.position = sview.position          # the very array object of the source atom
                model.cells[e.cells[dj]]["pos"] = model.cells[src.cells[sj]]["pos"].copy()
                tainted.update([e.cells[dj], src.cells[sj]])
            elif kind == "same_array":
                other = pool[b % len(pool)]
                if e.kind in ("mol", "res") and other.kind in ("mol", "res") and len(other.cells) == len(e.cells) \
                        and other is not e:
                    arr = rng.uniform(-5, 5, (len(e.cells), 3))
                    o.atoms_positions = arr
                    other.obj.atoms_positions = arr            # the same ndarray for both objects
                    for c, p in zip(e.cells, arr):
                        model.cells[c]["pos"] = p.copy()
                    for c, p in zip(other.cells, arr):
                        model.cells[c]["pos"] = p.copy()
                    tainted.update(e.cells)
                    tainted.update(other.cells)
            elif kind == "read_center" and e.kind in ("mol", "res"):
                P = np.array([model.cells[c]["pos"] for c in e.cells])
                com = P.mean(axis=0)
                got = np.array(lib("center", lambda: o.geometric_center), float)
                xyz = np.array([o.x, o.y, o.z], float)
                dz = float(o.distance_to_zero)
                dd = float(lib("distance", o.distance_to, np.zeros(3)))
                if not (np.abs(got - com).max() <= 1e-9 and np.abs(xyz - com).max() <= 1e-9
                        and abs(dz - np.linalg.norm(com)) <= 1e-9 and abs(dd - np.linalg.norm(com)) <= 1e-9):
                    raise PropertyViolation("geometric-centre", "step %d: geometric centre of object %d is %r, the mean of "
                                            "its coordinates is %r" % (step, ei, got.tolist(), com.tolist()))
            elif kind == "inplace":
                # element-wise modification through a live view (atom.position[k] += d)
                j = b % len(e.cells)
                view = o if e.kind in ("agro", "atom") else lib("index", o.__getitem__, j - len(e.cells) if flag else j)
                if e.kind in ("agro", "atom"):
                    j = 0
                c = e.cells[j]
                k = seed % 3
                d = float(rng.uniform(-2, 2))
                if field == "vel":
                    if model.cells[c]["vel"] is not None:
                        view.velocity[k] += d
                        model.cells[c]["vel"] = model.cells[c]["vel"].copy()
                        model.cells[c]["vel"][k] += d
                elif c not in tainted:
                    view.position[k] += d
                    model.cells[c]["pos"] = model.cells[c]["pos"].copy()
                    model.cells[c]["pos"][k] += d
        # bookkeeping for the non-triviality rule
        if kind in ("move", "move_to", "rotate", "set_pos", "set_vel", "set_ids", "set_resids", "atom_set", "iter_set"):
            root = e
            while root.owner is not None:
                root = pool[root.owner]
            ri = pool.index(root)
            if root.origin is not None:
                touched_copy.add((ri, root.origin))
            touched_src.add(ri)
            for (cp, src) in touched_copy:
                if src in touched_src and nres > 1:
                    nontrivial = True
        compare(model, pool, step, kind)
    kinds = sorted(set(e.kind for e in pool))
    return {"nontrivial": nontrivial,
            "classes": ["source:" + case["source"], "residues:%d" % nres, "pool:" + "+".join(kinds),
                        "labels:" + ("colliding" if any(r[0] == "2RA" for r in spec["residues"]) else "distinct")],
            "sample": {"source": case["source"], "residues": [[r[0], len(r[2])] for r in spec["residues"]],
                       "ops": [o[:3] for o in case["ops"][:15]]}}


SUBCHECKS = [
    Sub("pool", check, strategy=lambda tier: case_strategy(), quick=3200, thorough=160000,
        min_share={"source:system": 0.2, "source:alignment": 0.2, "nontrivial": 0.1}),
]
