"""C06  Alignment moves molecules only by structure-preserving transformations."""
import os

import numpy as np
from hypothesis import strategies as st

from vlib import env, gen, indep  # noqa: F401
from vlib.build import build_molecule, lib, positions, step_cap
from vlib.report import PropertyViolation
from vlib.runner import Sub

from gaddlemaps import Alignment
from gaddlemaps.components import Molecule

from checks import align_common as ac

PROPERTY = "C06"
LEVEL = "exploration"
RULE = ("(generated) start/end molecules of 1..40 atoms, either one larger or equal, the smaller one (ties: the end) a "
        "random connected tree, the other any graph with >=1 bond; hydrogens placed at random through atom names; "
        "restraint lists with repeats; every non-empty deformation subset and the default; ignore_hydrogens on/off; "
        "numpy seed and STEPS_FACTOR 1..40 drawn by Hypothesis. (shipped) CUR, VTE, BF4, Protein, DNA pairs with a "
        "small step factor. Non-trivial = mobile molecule of >=3 atoms and (some non-bonded distance changed by >1e-6 "
        "or restraints reached the engine). Distinct = sha1 of the case JSON.")
ASSUMPTIONS = [
    "Python alignment engine (the compiled backend is not installed in this sandbox)",
    "the mobile molecule is connected; the larger molecule has >=1 bond and >=1 non-hydrogen atom (stated)",
    "single-atom moves are requested only when the mobile molecule has >=2 atoms (stated)",
]


@st.composite
def case_strategy(draw, tier):
    pair = draw(ac.molecule_pair(max_atoms=40 if draw(st.integers(0, 3)) == 0 else 14,
                                 multi_residue=draw(st.integers(0, 3)) == 0, similar_names=True))
    ns, ne = gen.spec_n(pair["start"]), gen.spec_n(pair["end"])
    mobile = min(ns, ne)
    pair.update({"restr": draw(ac.restraint_list(ns, ne)),
                 "restr_none": draw(st.integers(0, 4)) == 0,
                 "deform": draw(ac.deformation_types(mobile)),
                 "ignore_h": draw(st.booleans()),
                 "steps": draw(st.integers(1, 40 if mobile <= 10 else 8)),
                 "seed": draw(gen.SEEDS),
                 "second_round": draw(st.sampled_from([None, None, "start", "end"])),
                 "repair": draw(st.integers(0, 5)) == 0 and mobile >= 3,
                 "seed2": draw(gen.SEEDS)})
    if mobile >= 20 and pair.get("far") and draw(st.booleans()):
        # the rare combination the far / long classes were added for: a long flexible mobile molecule at box scale
        # WITH single-atom moves (bond restoring cascades through many atoms on a coarse grid)
        pair["deform"] = draw(st.sampled_from([[2], [0, 1, 2], [2, 0]]))
        pair["ignore_h"] = False
    return pair


def _deform(case):
    """The selection of deformation types as a tuple, a list or a numpy array (any "tuple of int"-like container)."""
    if case["deform"] is None:
        return None
    how = case["seed"] % 4
    if how == 2:
        return list(case["deform"])
    if how == 3:
        return np.array(case["deform"])
    return tuple(case["deform"])


def run_alignment(case, start, end):
    ali = Alignment(start=start, end=end)
    ali.STEPS_FACTOR = case["steps"]
    np.random.seed(case["seed"])
    restr = None if case.get("restr_none") else [tuple(r) for r in case["restr"]]
    deform = _deform(case)
    with step_cap():
        ali.align_molecules(restr, deform, case["ignore_h"])
    return ali


def repaired_alignment(case, sspec, espec, label):
    """Error-then-continue: the mobile molecule's topology lacks one bond, the alignment refuses it (disconnected),
    the bond is added in place through AtomTop.connect and the SAME Alignment object is run again."""
    start_mobile = gen.spec_n(sspec) < gen.spec_n(espec)
    mspec = sspec if start_mobile else espec
    drop = mspec["edges"][case["seed"] % len(mspec["edges"])]
    broken = dict(mspec, edges=[e for e in mspec["edges"] if e != drop])
    start = build_molecule(broken if start_mobile else sspec)
    end = build_molecule(espec if start_mobile else broken)
    ali = Alignment(start=start, end=end)
    ali.STEPS_FACTOR = case["steps"]
    restr = None if case.get("restr_none") else [tuple(r) for r in case["restr"]]
    deform = _deform(case)
    try:
        with env.quiet(), step_cap():
            ali.align_molecules(restr, deform, case["ignore_h"])
    except Exception:      # noqa: BLE001   (IOError: the molecule is not connected)
        pass
    top = (ali.start if start_mobile else ali.end).molecule_top
    lib("connect", top[drop[0]].connect, top[drop[1]])
    np.random.seed(case["seed"])
    with step_cap():
        lib("align-after-repair", ali.align_molecules, restr, deform, case["ignore_h"])
    return ali


def judge(case, s0, e0, ali, label):
    s1, e1 = positions(ali.start), positions(ali.end)
    ns, ne = len(s0), len(e0)
    if not (np.all(np.isfinite(s1)) and np.all(np.isfinite(e1))):
        raise PropertyViolation("finite", "%s: non-finite coordinates after alignment" % label)
    start_mobile = ns < ne
    # every accepted transformation is applied to the current coordinates and rounded on the grid of the ABSOLUTE
    # coordinates (eps x |coordinate|); the property's 1e-9 nm presupposes that this is negligible, which far from the
    # origin and after thousands of accepted steps it is not: the bound allows for one grid step per accepted step
    from vlib import build as _build
    grid = float(np.finfo(float).eps) * float(max(np.abs(s0).max(), np.abs(e0).max()))
    tol = 1e-9 + float(os.environ.get("VERIF_C06_K", "4.0")) * grid * _build.ACCEPTED[0]
    # the larger molecule (ties: start) is only translated; untouched when it is the end molecule
    if start_mobile:
        if not np.array_equal(e1, e0):
            raise PropertyViolation("end-untouched", "%s: the end molecule is the larger one but its coordinates "
                                    "changed by %.3e" % (label, np.abs(e1 - e0).max()))
        mob0, mob1, mspec = s0, s1, case["start"]
    else:
        d = s1 - s0
        if not np.abs(d - d[0]).max() <= tol:
            raise PropertyViolation("larger-only-translated", "%s: the start molecule (%d atoms, end has %d) was not "
                                    "only translated: displacements differ by %.3e"
                                    % (label, ns, ne, np.abs(d - d[0]).max()),
                                    cls="larger-only-translated:" + case.get("relation", "shipped"))
        mob0, mob1, mspec = e0, e1, case["end"]
    # the mobile molecule keeps its bonded distances (acyclic) / all distances (no atom moves)
    edges = [tuple(e) for e in mspec["edges"]]
    n = len(mob0)
    deform = case["deform"]
    if deform is None:
        deform = (0,) if ns == 1 or ne == 1 else (0, 1, 2)
    acyclic = len(edges) == n - 1 and indep.connected(n, edges)
    d0 = indep.pair_distances(mob0)
    d1 = indep.pair_distances(mob1)
    if acyclic or 2 not in deform:
        for a, b in edges:
            if not abs(d0[a, b] - d1[a, b]) <= tol:
                raise PropertyViolation("bond-lengths", "%s: bond %d-%d of the mobile molecule changed from %.12g to "
                                        "%.12g (deformations %r)" % (label, a, b, d0[a, b], d1[a, b], deform))
    if 2 not in deform:
        if not np.abs(d0 - d1).max() <= tol:
            raise PropertyViolation("rigid-without-atom-moves", "%s: single-atom moves disabled (%r) but pair "
                                    "distances changed by %.3e" % (label, deform, np.abs(d0 - d1).max()))
    if ne == 1 and not np.array_equal(e1, e0):
        raise PropertyViolation("end-untouched", "%s: single-atom end molecule moved" % label)
    deformed = n >= 3 and np.abs(d0 - d1).max() > 1e-6
    return deformed, start_mobile


def check(case):
    sspec, espec = case["start"], case["end"]
    given_s = build_molecule(sspec)
    given_e = build_molecule(espec)
    s0, e0 = positions(given_s), positions(given_e)
    def _labels(mol):
        # atom by atom: name, residue name as the topology has it and as the coordinates have it
        return [(a.name, a.resname, g.resname) for a, g in zip(mol, [x for r in mol.residues for x in r])]
    names_s = _labels(given_s)
    names_e = _labels(given_e)
    label = "start %d atoms, end %d atoms, deform %r, ignore_h %r, %d restraints" % (
        len(s0), len(e0), case["deform"], case["ignore_h"], len(case["restr"]))
    if case.get("repair"):
        ali = repaired_alignment(case, sspec, espec, label)
        given_s, given_e = build_molecule(sspec), build_molecule(espec)
    else:
        ali = lib("align", run_alignment, case, given_s, given_e)
    if not (np.array_equal(positions(given_s), s0) and np.array_equal(positions(given_e), e0)):
        raise PropertyViolation("caller-objects", "%s: the Molecule objects supplied by the caller were modified" % label)
    if lib("names", _labels, ali.start) != names_s or lib("names", _labels, ali.end) != names_e:
        raise PropertyViolation("names-order", "%s: atom names, residue names or order changed" % label)
    if not case.get("repair") and (lib("caller-names", _labels, given_s) != names_s or
                                   lib("caller-names", _labels, given_e) != names_e):
        raise PropertyViolation("caller-objects", "%s: names of the Molecule objects supplied by the caller changed" % label)
    deformed, start_mobile = judge(case, s0, e0, ali, label)
    # deterministic: fresh objects, same seed -> bit-identical
    ali2 = ali if case.get("repair") else lib("align-again", run_alignment, case, build_molecule(sspec), build_molecule(espec))
    if not (np.array_equal(positions(ali.start), positions(ali2.start)) and
            np.array_equal(positions(ali.end), positions(ali2.end))):
        raise PropertyViolation("deterministic", "%s: repeating the alignment with the same seed gives different "
                                "coordinates" % label)
    # a second alignment on the same object after re-assigning one molecule with another
    # conformation of the same species (documented use of the setters)
    second = None if case.get("repair") else case.get("second_round")
    if second:
        rng = np.random.default_rng(case["seed2"])
        spec = sspec if second == "start" else espec
        n = gen.spec_n(spec)
        newpos = gen.walk_geometry(n, spec["edges"], rng, lo=0.1, hi=0.6) + rng.uniform(-2, 2, 3)
        newmol = build_molecule(spec, coords=newpos)
        if second == "start":
            ali.start = newmol
        else:
            ali.end = newmol
        s0b, e0b = positions(ali.start), positions(ali.end)
        if not np.array_equal(s0b if second == "start" else e0b, newpos):
            raise PropertyViolation("reassign", "%s: re-assigning %s did not take the new coordinates" % (label, second))
        np.random.seed(case["seed2"])
        restr = None if case.get("restr_none") else [tuple(r) for r in case["restr"]]
        with step_cap():
            lib("align-second", ali.align_molecules, restr, _deform(case), case["ignore_h"])
        if not np.array_equal(positions(newmol), newpos):
            raise PropertyViolation("caller-objects", "%s: the re-assigned Molecule object was modified" % label)
        judge(case, s0b, e0b, ali, label + " (second alignment after re-assigning %s)" % second)
    mobile_n = min(len(s0), len(e0))
    # restraints that survive hydrogen filtering
    fixed_spec = espec if start_mobile else sspec
    fnames = ac.atom_names(fixed_spec)
    surv = 0
    for i, j in case["restr"]:
        f = j if start_mobile else i
        if not (case["ignore_h"] and ac.is_hydrogen(fnames[f])):
            surv += 1
    if case.get("restr_none"):
        surv = 0
    nt = mobile_n >= 3 and (deformed or surv > 0)
    return {"nontrivial": nt,
            "classes": ["far" if case.get("far") else "near-origin", "repaired-topology" if case.get("repair") else "topology-as-loaded", "relation:" + case["relation"], "deform:%s" % ("default" if case["deform"] is None else
                                                                       "".join(map(str, sorted(case["deform"])))),
                        "ignore_h" if case["ignore_h"] else "keep_h", "restraints" if surv else "no-restraints",
                        "deformed" if deformed else "rigid", "second-round" if second else "single-round",
                        "collinear-neighbours" if case.get("degenerate_mobile") else "generic-mobile"],
            "sample": {"relation": case["relation"], "n_start": len(s0), "n_end": len(e0), "deform": case["deform"],
                       "ignore_h": case["ignore_h"], "restr": case["restr"], "steps": case["steps"], "seed": case["seed"]}}


# ------------------------------------------------------------------ shipped pairs
SHIPPED = [("CUR_map.gro", "CUR_CG.itp", "CUR_AA.gro", "CUR_AA.itp", 3),
           ("VTE_map.gro", "vitamin_E_CG.itp", "VTE_AA.gro", "VTE_AA.itp", 3),
           ("BF4_CG.gro", "BF4_CG.itp", "BF4_AA.gro", "BF4_AA.itp", 5),
           ("Protein_CG.gro", "Protein_CG.itp", "Protein_AA.gro", "Protein_AA.itp", 2),
           ("DNA_map.gro", "DNA_CG.itp", "DNA_AA.gro", "DNA_AA.itp", 1)]


def shipped_cases(tier, seed):
    cases = []
    for k, (sg, si, eg, ei, steps) in enumerate(SHIPPED):
        for direction in ("cg->aa", "aa->cg"):
            for deform in (None, (0, 1)):
                cases.append({"files": [sg, si, eg, ei], "direction": direction, "deform": deform, "steps": steps,
                              "seed": int(seed) * 100 + k, "ignore_h": True, "restr": [], "restr_none": True})
    return cases, True


def check_shipped(case):
    f = lambda n: os.path.join(env.DATA, n)     # noqa: E731
    sg, si, eg, ei = case["files"]

    def load():
        a = Molecule.from_files(f(sg), f(si))
        b = Molecule.from_files(f(eg), f(ei))
        return (a, b) if case["direction"] == "cg->aa" else (b, a)
    start, end = lib("load", load)
    s0, e0 = positions(start), positions(end)
    label = "%s %s deform %r" % (sg, case["direction"], case["deform"])
    ali = lib("align", run_alignment, case, start, end)
    if not (np.array_equal(positions(start), s0) and np.array_equal(positions(end), e0)):
        raise PropertyViolation("caller-objects", "%s: caller's molecules modified" % label)
    mob = ali.start if len(s0) < len(e0) else ali.end
    n = len(mob)
    edges = sorted(set((min(i, j), max(i, j)) for i, a in enumerate(mob) for j in a.bonds))
    jc = dict(case, start={"edges": edges}, end={"edges": edges}, relation="shipped")
    deformed, _ = judge(jc, s0, e0, ali, label)
    s2, e2 = lib("load", load)
    ali2 = lib("align-again", run_alignment, case, s2, e2)
    if not (np.array_equal(positions(ali.start), positions(ali2.start)) and
            np.array_equal(positions(ali.end), positions(ali2.end))):
        raise PropertyViolation("deterministic", "%s: same seed, different result" % label)
    return {"nontrivial": True, "classes": ["shipped:" + sg.split("_")[0], "deformed" if deformed else "rigid"],
            "sample": dict(case, mobile_atoms=n)}


# ------------------------------------------------------------------ the same guarantees through Manager.align_molecules
@st.composite
def manager_route_case(draw):
    from checks import c10_restraints as c10
    case = draw(c10.manager_case())
    case["bad"] = None
    case["hydrogens"] = False
    for o in case["opts"].values():
        o.pop("ignore", None)
    case["steps"] = draw(st.integers(1, 6))
    return case


def check_manager_route(case):
    """Per-species options given to the Manager (in any dictionary order, validated beforehand or not) govern the
    alignment of exactly that species: each species is judged with ITS selection of deformation types."""
    from checks import c10_restraints as c10
    from gaddlemaps import Manager  # noqa: F401
    man, specs = c10.build_manager(case)
    names = [sp["name"] for sp in case["species"]]
    order = [names[i] for i in case.get("dict_order", range(len(names)))]
    restr = {n: [tuple(r) for r in case["opts"][n]["restr"]] for n in order if "restr" in case["opts"][n]}
    deform = {n: tuple(case["opts"][n]["deform"]) for n in reversed(order) if "deform" in case["opts"][n]}
    before = {n: (positions(man.molecule_correspondence[n].start), positions(man.molecule_correspondence[n].end)) for n in names}
    old = Alignment.STEPS_FACTOR
    Alignment.STEPS_FACTOR = case["steps"]
    np.random.seed(case["seed"] % 2 ** 32)
    try:
        with step_cap():
            if case.get("route", "direct") == "direct":
                lib("manager-align", man.align_molecules, restr or None, deform or None)
            else:
                parsed = lib("parse", man.parse_restrictions, restr or None)
                if case["route"] == "preparsed-reordered":
                    parsed = {n: parsed[n] for n in order if n in parsed}
                lib("manager-align", man.align_molecules, parsed, deform or None, None, False)
    finally:
        Alignment.STEPS_FACTOR = old
    rigid = 0
    for sp in case["species"]:
        n = sp["name"]
        ali = man.molecule_correspondence[n]
        sub = {"start": specs[(n, "start")], "end": specs[(n, "end")], "deform": case["opts"][n].get("deform"),
               "relation": "manager"}
        s0, e0 = before[n]
        judge(sub, s0, e0, ali, "Manager route, species %s (%d -> %d atoms), options %r, dictionaries in order %r"
              % (n, len(s0), len(e0), case["opts"][n], order))
        rigid += sub["deform"] is not None and 2 not in sub["deform"]
    return {"nontrivial": rigid >= 1 and len(names) >= 2,
            "classes": ["route:" + case.get("route", "direct"), "species:%d" % len(names)],
            "sample": {"species": case["species"], "opts": case["opts"], "route": case.get("route")}}


SUBCHECKS = [
    Sub("manager", check_manager_route, strategy=lambda tier: manager_route_case(), quick=160, thorough=6000),
    Sub("generated", check, strategy=lambda tier: case_strategy(tier), quick=1000, thorough=40000,
        min_share={"relation:start-smaller": 0.2, "relation:equal": 0.1, "relation:start-larger": 0.1,
                   "deformed": 0.15, "collinear-neighbours": 0.04}),
    Sub("shipped", check_shipped, enumerate=shipped_cases, note="shipped molecule pairs in both directions"),
]
