"""C08  Overlap measure (chi2) equals its reference definition for all restraint sets."""
import numpy as np
from hypothesis import strategies as st

from vlib import env, gen, indep  # noqa: F401
from vlib.build import lib
from vlib.report import PropertyViolation
from vlib.runner import Sub

import gaddlemaps

PROPERTY = "C08"
LEVEL = "exploration"
RULE = ("fixed set 1..40 atoms, mobile 1..25 atoms, coordinates in +-5 nm (random floats, clustered so that several "
        "fixed atoms share a nearest mobile atom); restraint classes empty / partial / partial with duplicated fixed "
        "atoms / every fixed atom restrained / every fixed atom restrained with duplicates; calculator built with one "
        "mobile configuration and evaluated on two others; every array handed over C-contiguous, Fortran-ordered, as a "
        "strided view, as a transposed (3,N) array or read-only. Non-trivial = penalty exponent >= 1 and evaluation array != "
        "construction array. Distinct = sha1 of the case JSON.")
ASSUMPTIONS = [
    "ties (two mobile atoms equally near a fixed atom to 1e-9 relative) are detected; the value is then only required "
    "to lie in the range spanned by the admissible penalty exponents",
    "restraint indices are valid (the alignment layer validates them)",
]

RESTR = ["empty", "partial", "partial-dup", "all", "all-dup"]


@st.composite
def case_strategy(draw):
    nf = draw(st.integers(1, 40))
    nm = draw(st.integers(1, 25))
    rng = np.random.default_rng(draw(gen.SEEDS))
    layout = draw(st.sampled_from(["uniform", "clustered", "overlapped", "far-tight", "near-tie", "near-tie"]))
    if layout == "uniform":
        fixed = rng.uniform(-5, 5, (nf, 3))
        mob = rng.uniform(-5, 5, (nm, 3))
    elif layout == "clustered":
        centres = rng.uniform(-5, 5, (max(1, nm // 3), 3))
        fixed = centres[rng.integers(0, len(centres), nf)] + rng.normal(0, 0.3, (nf, 3))
        mob = rng.uniform(-5, 5, (nm, 3))
        mob[:len(centres)] = centres[:nm] + rng.normal(0, 0.05, (min(nm, len(centres)), 3))
    elif layout == "far-tight":
        # both sets far from the origin (box scale) and almost perfectly overlapped
        shift = gen.unit(rng) * 10.0 ** rng.uniform(1, 3)
        mob = rng.uniform(-1, 1, (nm, 3)) + shift
        fixed = mob[rng.integers(0, nm, nf)] + rng.normal(0, 10.0 ** rng.uniform(-6, -3), (nf, 3))
    elif layout == "near-tie":
        # some fixed atoms sit almost - not exactly - midway between two mobile atoms: the nearest one is well defined
        # (the two squared distances differ by 1e-8 .. 1e-5 relative), a tolerance must not blur it
        mob = rng.uniform(-1, 1, (nm, 3))
        fixed = rng.uniform(-1, 1, (nf, 3))
        if nm >= 2:
            for i in range(nf):
                if rng.random() < 0.6:
                    a_, b_ = rng.choice(nm, size=2, replace=False)
                    mid = 0.5 * (mob[a_] + mob[b_])
                    axis = mob[b_] - mob[a_]
                    L = float(np.linalg.norm(axis))
                    if L > 1e-3:
                        perp = np.cross(axis, gen.unit(rng))
                        perp = perp / max(np.linalg.norm(perp), 1e-12) * rng.uniform(0, 0.5)
                        fixed[i] = mid + perp + axis / L * L * 10.0 ** rng.uniform(-8, -5) * rng.choice([-1, 1])
    else:
        mob = rng.uniform(-1, 1, (nm, 3))
        fixed = mob[rng.integers(0, nm, nf)] + rng.normal(0, 0.1, (nf, 3))
    kind = draw(st.sampled_from(RESTR))
    restr = []
    if kind in ("partial", "partial-dup") and nf >= 1:
        k = draw(st.integers(1, max(1, nf - 1))) if nf > 1 else 1
        fi = sorted(rng.choice(nf, size=min(k, nf), replace=False).tolist())
        if nf > 1 and len(fi) == nf:
            fi = fi[:-1]
        restr = [[int(i), int(rng.integers(0, nm))] for i in fi]
        if kind == "partial-dup" and restr:
            for _ in range(draw(st.integers(1, 3))):
                restr.append([restr[int(rng.integers(0, len(restr)))][0], int(rng.integers(0, nm))])
    elif kind in ("all", "all-dup"):
        restr = [[i, int(rng.integers(0, nm))] for i in range(nf)]
        if kind == "all-dup":
            for _ in range(draw(st.integers(1, 3))):
                restr.append([int(rng.integers(0, nf)), int(rng.integers(0, nm))])
    if restr:
        order = rng.permutation(len(restr))
        restr = [restr[i] for i in order]
    jitter = 0.5 if layout != "far-tight" else 10.0 ** rng.uniform(-6, -3)
    evals = [(mob + rng.normal(0, jitter, mob.shape)).tolist(),
             (mob @ gen.random_rotation(rng).T + rng.uniform(-1, 1, 3)).tolist(),
             mob.tolist()]
    return {"fixed": fixed.tolist(), "built_with": mob.tolist(), "restr": restr, "rkind": kind,
            "layout": layout, "evals": evals, "seed": draw(gen.SEEDS),
            "as_tuples": draw(st.booleans()),
            "rcont": draw(st.sampled_from(["list", "list", "ndarray", "ndarray", "int32", "tuple"])), "reuse_restr": draw(st.integers(0, 3)) == 0, "work_array": draw(st.integers(0, 2)) == 0,
            "mem": [draw(st.sampled_from(gen.ARRAY_LAYOUTS)) for _ in range(5)]}


def _expect(fixed, mobile, restr):
    val, k, tie = indep.naive_chi2(fixed, mobile, restr)
    return val, k, tie


def _compare(clause, got, fixed, mobile, restr, label):
    val, k, tie = _expect(fixed, mobile, restr)
    got = float(got)
    if not np.isfinite(got) or got < 0:
        raise PropertyViolation(clause + "-sign", "%s: value %r is negative or not finite" % (label, got))
    if tie:
        base = val / (1.1 ** k)
        lo, hi = base * 0.999999999, base * (1.1 ** len(mobile)) * 1.000000001
        if not lo <= got <= hi:
            raise PropertyViolation(clause, "%s (tie): %r outside [%r, %r]" % (label, got, lo, hi))
        return k, True
    if not abs(got - val) <= 1e-9 * max(abs(val), 1e-12):
        raise PropertyViolation(clause, "%s: calculator %r, definition %r (k=%d, %d restraints, %d fixed, %d mobile)"
                                % (label, got, val, k, len(restr), len(fixed), len(mobile)),
                                cls="%s:%s" % (clause, label.split()[0]))
    return k, False


def check(case):
    mem = case.get("mem", ["C"] * 5)
    fixed = gen.as_layout(case["fixed"], mem[0])
    built = gen.as_layout(case["built_with"], mem[1])
    if case["seed"] % 4 == 0:
        # the calculator is built with a mobile configuration on an integer grid (an integer array, as in the
        # repository's own tests): only the number of mobile atoms is taken from it
        built = np.round(np.array(case["built_with"], float)).astype(np.int64 if case["seed"] % 8 else np.int32)
    restr = [tuple(r) for r in case["restr"]] if case["as_tuples"] else [list(r) for r in case["restr"]]
    rlist = [tuple(r) for r in case["restr"]]
    rcont = case.get("rcont", "list")

    def boxed(rs):
        # the documented type of the argument is "numpy.ndarray((N, 2)) or array convertible"
        if not rs:
            return None
        if rcont == "ndarray":
            return np.array(rs)
        if rcont == "int32":
            return np.array(rs, dtype=np.int32)
        if rcont == "tuple":
            return tuple(tuple(r) for r in rs)
        return rs
    fixed_snapshot = fixed.copy()
    if restr and case.get("reuse_restr"):
        # the caller keeps ONE restraint list and edits it in place between two calculators
        real = list(restr)
        del restr[:]
        how = case["seed"] % 3
        if how == 2 and len(real) >= 3:
            # ... only its middle rows differ (same first and last row, same length)
            nm = len(built)
            restr.extend([real[0]] + [type(real[0])((r[0], (r[1] + 1) % nm)) for r in real[1:-1]] + [real[-1]])
        else:
            restr.extend([real[0]] * 2 if how else real[: max(1, len(real) // 2)])
        lib("construct-prior", gaddlemaps.Chi2Calculator, fixed, built, boxed(restr))
        del restr[:]
        restr.extend(real)
    calc = lib("construct", gaddlemaps.Chi2Calculator, fixed, built, boxed(restr))
    ks = []
    any_tie = False
    work = None
    for idx, ev in enumerate(case["evals"]):
        if case.get("work_array"):
            # the caller keeps ONE coordinate array and updates it in place between evaluations
            if work is None:
                work = np.array(ev, float)
            else:
                work[...] = np.array(ev, float)
            mob = work
        else:
            mob = gen.as_layout(ev, mem[2 + idx])
        mob_snapshot = mob.copy()
        got = lib("evaluate", calc, mob)
        k, tie = _compare("definition", got, case["fixed"], ev, rlist, "%s eval%d (arrays %s)" % (case["rkind"], idx, "/".join(mem)))
        ks.append(k)
        any_tie |= tie
        if not np.array_equal(mob, mob_snapshot) or not np.array_equal(fixed, fixed_snapshot):
            raise PropertyViolation("pure", "evaluation modified its input arrays")
    if rlist:
        # the named method gives the measure WITHOUT restraints, also on a calculator that was built with some
        mob0 = np.array(case["evals"][0], float)
        plain = lib("chi2_molecules", calc.chi2_molecules, mob0)
        _compare("definition-unrestrained-route", plain, case["fixed"], case["evals"][0], [],
                 "chi2_molecules() of a calculator built with %d restraints" % len(rlist))
    # metamorphic: common rigid motion, consistent relabelling  (on the first evaluation array)
    rng = np.random.default_rng(case["seed"])
    mob = np.array(case["evals"][0], float)
    base = float(lib("evaluate", calc, mob))
    _, _, tie0 = _expect(case["fixed"], case["evals"][0], rlist)
    if not tie0 and case["layout"] != "far-tight":     # (a rigid motion of far-tight sets is itself ill-conditioned)
        R = gen.random_rotation(rng)
        t = rng.uniform(-10, 10, 3)
        calc2 = lib("construct", gaddlemaps.Chi2Calculator, fixed @ R.T + t, built @ R.T + t, boxed(restr))
        moved = float(lib("evaluate", calc2, mob @ R.T + t))
        if not abs(moved - base) <= 1e-9 * max(abs(base), 1e-9):
            raise PropertyViolation("rigid-invariance", "value %r becomes %r after a common rigid motion" % (base, moved))
        pf = rng.permutation(len(fixed))
        pm = rng.permutation(len(mob))
        inv_f = np.argsort(pf)
        inv_m = np.argsort(pm)
        restr_p = [(int(inv_f[i]), int(inv_m[j])) for i, j in rlist]
        calc3 = lib("construct", gaddlemaps.Chi2Calculator, fixed[pf], built[pm], boxed(restr_p))
        perm = float(lib("evaluate", calc3, mob[pm]))
        if not abs(perm - base) <= 1e-9 * max(abs(base), 1e-9):
            raise PropertyViolation("relabel-invariance", "value %r becomes %r after consistent relabelling" % (base, perm))
    path = "path:none" if not rlist else ("path:all" if len(set(i for i, _ in rlist)) == len(fixed) else "path:some")
    classes = ["restr:" + case["rkind"], path, "layout:" + case["layout"],
               "k>=1" if max(ks) >= 1 else "k=0", "mem:" + ("C" if set(mem) <= {"C"} else "mixed"), "restraints-as:" + rcont,
               "built-with:" + ("int" if case["seed"] % 4 == 0 else "float")]
    if any_tie:
        classes.append("tie")
    return {"nontrivial": max(ks[:2]) >= 1, "classes": classes,
            "sample": {"n_fixed": len(fixed), "n_mobile": len(built), "restr": case["restr"],
                       "k": ks, "layout": case["layout"]}}


SUBCHECKS = [
    Sub("chi2", check, strategy=lambda tier: case_strategy(), quick=12000, thorough=800000,
        min_share={"path:none": 0.1, "path:some": 0.15, "path:all": 0.15, "k>=1": 0.3}),
]
