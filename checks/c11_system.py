"""C11  System recognises exactly the molecule instances present, in file order."""
import itertools

import numpy as np
from hypothesis import strategies as st

from vlib import env, gen, indep  # noqa: F401
from vlib.build import lib
from vlib.report import PropertyViolation
from vlib.runner import Sub

from gaddlemaps.components import System

PROPERTY = "C11"
LEVEL = "exploration"
RULE = ("(exhaustive) every sequence of 0<len<=4 (quick) / <=5 (thorough) molecules over 7 symbols - single-residue "
        "species, 3-residue species with a repeated residue, 2-residue species, a species reusing another's residue name "
        "with another size, a species ending in the residue kind another one starts with, a second species whose topology "
        "carries the name of the first, and an unloaded solvent - x every permutation of the loading order of the species present; "
        "(random) Hypothesis: 2..5 random species (1..4 residues, private residue kinds), sequences up to 40 (quick) / "
        "300, random loaded subset and order, one absent species; (history) operation lists on one System: topologies added "
        "one by one by path, open file or MoleculeTop between full walks, partial iterations, (negative) indexing, "
        "slices, refused (absent / already loaded) topologies, judged after every step; (runs) multi-residue species in "
        "uninterrupted runs of 255..1025 instances. Non-trivial = >=2 loaded species interleaved and a "
        "multi-residue instance adjacent to another instance of itself. Distinct = sha1 of the case JSON.")
ASSUMPTIONS = [
    "'distinct residue signatures': no (residue name, size) kind is shared between species or with the solvent",
    "coordinate files are written by the harness' fixed-column writer with residue numbers increasing by one per residue "
    "(a fifth of the files start just below 99999 and cross the five-digit wrap; a third carry velocities; some use CRLF)",
]

# name -> list of residues (resname, atom names)
FIXED_SPECIES = {
    "A": [("AAA", ["C1", "C2", "O1"])],
    "B": [("XB", ["N1", "C1"]), ("XB", ["N1", "C1"]), ("YB", ["P1"])],
    "C": [("PCHOL", ["C1", "C2", "C3", "C4"]), ("PCHOM", ["O1", "H1"])],      # five-character names, equal up to the last letter
    "D": [("AAA", ["S1", "S2"])],
    "E": [("QE", ["C1"]), ("XB", ["N1", "C1"])],          # ends in the residue kind B starts with
    "A2": [("A2R", ["S1", "S2", "S3"])],                   # another species whose topology is also named "A"
    "W": [("SOL", ["OW", "HW1", "HW2"])],
}
UNLOADED = {"W"}


def molname(sp):
    """The [ moleculetype ] name of a species: the species key, except that "A2" is a second, different species that
    also calls itself "A" (two ligands both named LIG): names need not be unique, residue signatures are."""
    return sp[:-1] if sp.endswith("2") else sp


def species_itp(name, residues, rng=None):
    atoms = []
    for r, (rn, names) in enumerate(residues):
        for an in names:
            atoms.append((an, rn, r + 1))
    n = len(atoms)
    edges = [(k, k + 1) for k in range(n - 1)]
    return indep.itp_text(name, atoms, edges)


def build_files(species, sequence, seed):
    """Writes the system .gro and one .itp per species; returns paths and the model."""
    rng = np.random.default_rng(seed)
    records = []
    model = []         # (species name, first record index, n atoms, [resids])
    resid = int(rng.integers(1, 40))
    if seed % 5 == 0:
        resid = 99990 - int(rng.integers(0, 6))          # the residue numbers cross the five-digit wrap of the format
    vel = seed % 3 == 0
    for sp in sequence:
        first = len(records)
        rids = []
        for rn, names in species[sp]:
            resid += 1
            rids.append(resid)
            for an in names:
                xyz = np.round(rng.uniform(0, 30, 3), 3).tolist()
                v = tuple(np.round(rng.uniform(-2, 2, 3), 4).tolist()) if vel else ()
                records.append((resid, rn, an, len(records) + 1) + tuple(xyz) + v)
        model.append((sp, first, len(records) - first, rids))
    gro = env.fresh_path(".gro")
    indep.write_gro(gro, "generated system", records, [30.0, 30.0, 30.0], newline="\r\n" if seed % 11 == 0 else None,
                    align=[0, 0, 1, 2, 3][seed % 5])      # names placed the usual way or otherwise inside their columns
    parsed = indep.read_gro(gro)["records"]
    # residue numbers as the file shows them (wrapped into five digits)
    fixed = []
    for sp, first, n, rids in model:
        shown, k = [], first
        for rn, names in species[sp]:
            shown.append(parsed[k][0])
            k += len(names)
        fixed.append((sp, first, n, shown))
    model = fixed
    itps = {}
    for sp, residues in species.items():
        p = env.fresh_path(".itp")
        with open(p, "w") as f:
            f.write(species_itp(molname(sp), residues))
        itps[sp] = p
    return gro, itps, parsed, model


def mol_view(mol):
    return (mol.name, [a.name for a in mol], [a.resname for a in mol], list(mol.atoms_ids),
            np.array(mol.atoms_positions, float).tolist(), list(mol.resids))


def expected_for(model, records, loaded):
    expected = []
    for sp, first, n, rids in model:
        if sp in loaded:
            recs = records[first:first + n]
            expected.append((molname(sp), [r[2] for r in recs], [r[1] for r in recs], [r[3] for r in recs],
                             [list(r[4:7]) for r in recs], rids))
    return expected


def verify_full(syst, expected, label, seed):
    """Iteration, len, composition, every index, out-of-range and slices agree with the model."""
    mols = lib("iterate", list, syst)
    got = [mol_view(m) for m in mols]
    if [g[0] for g in got] != [e[0] for e in expected]:
        raise PropertyViolation("instances", "%s: recognised %r, file has %r"
                                % (label, [g[0] for g in got], [e[0] for e in expected]),
                                cls="instances")
    for k, (g, e) in enumerate(zip(got, expected)):
        for nm, a, b in zip(("name", "atom names", "residue names", "atom numbers", "coordinates", "residue numbers"), g, e):
            if a != b:
                raise PropertyViolation("instance-content", "%s: molecule %d (%s): %s %r, file has %r"
                                        % (label, k, e[0], nm, a if nm != "coordinates" else a[:2], b if nm != "coordinates" else b[:2]),
                                        cls="instance-content:" + nm)
    n = len(expected)
    if lib("len", len, syst) != n:
        raise PropertyViolation("len", "%s: len()=%d, %d instances" % (label, len(syst), n))
    comp = dict(syst.composition)
    exp_comp = {}
    for e in expected:
        exp_comp[e[0]] = exp_comp.get(e[0], 0) + 1
    if {k: v for k, v in comp.items() if v} != exp_comp:
        raise PropertyViolation("composition", "%s: composition %r, expected %r" % (label, comp, exp_comp))
    for i in list(range(-n, n)):
        m = lib("index", syst.__getitem__, i)
        if mol_view(m) != got[i]:
            raise PropertyViolation("indexing", "%s: System[%d] differs from the %d-th iterated molecule" % (label, i, i % n))
    for bad in (n, -n - 1, n + 3):
        try:
            with env.quiet():
                syst[bad]
        except IndexError:
            pass
        except Exception as exc:   # noqa: BLE001
            raise PropertyViolation("index-range", "%s: System[%d] raised %s, not IndexError" % (label, bad, type(exc).__name__))
        else:
            raise PropertyViolation("index-range", "%s: System[%d] returned a molecule (len %d)" % (label, bad, n))
    rng = np.random.default_rng(seed + 1)
    slices = [slice(None), slice(None, None, -1), slice(1, None, 2), slice(-2, None), slice(None, -1),
              slice(-n, None, -1), slice(-n, None, -3), slice(n - 1, None, -1), slice(None, -n, 1), slice(None, -n - 1, -1),
              slice(n, None), slice(1, 0), slice(None, 0), slice(0, None, -1), slice(-n - 1, None)]
    for _ in range(3):
        a, b = (int(v) for v in rng.integers(-n - 2, n + 3, 2))
        c = int(rng.choice([-3, -2, -1, 1, 2, 3]))
        slices.append(slice(a, b, c))
    for sl in slices:
        part = lib("slice", syst.__getitem__, sl)
        if [mol_view(m) for m in part] != got[sl]:
            raise PropertyViolation("slicing", "%s: System[%r] gives %r, expected %r"
                                    % (label, sl, [m.name for m in part], [g[0] for g in got[sl]]))
    return got


def check(case):
    species = {k: [(rn, list(names)) for rn, names in v] for k, v in case["species"].items()}
    sequence = case["sequence"]
    order = case["load_order"]
    gro, itps, records, model = build_files(species, sequence, case["seed"])
    loaded = set(order)
    expected = expected_for(model, records, loaded)
    label = "sequence %s, loaded %s" % ("".join(sequence) if all(len(s) == 1 for s in sequence) else sequence, order)
    present = set(sequence)
    if any(sp not in present for sp in order):
        # a topology with no matching run is refused (any exception)
        try:
            with env.quiet():
                System(gro, *[itps[sp] for sp in order])
        except Exception:     # noqa: BLE001
            return {"nontrivial": False, "classes": ["absent-refused"]}
        raise PropertyViolation("absent-refused", "%s: loading a topology absent from the file did not raise" % label)
    if case.get("incremental"):
        syst = lib("load", System, gro)
        for sp in order:
            lib("add_ftop", syst.add_ftop, itps[sp])
    else:
        syst = lib("load", System, gro, *[itps[sp] for sp in order])
    got = verify_full(syst, expected, label, case["seed"])
    n = len(expected)
    # loading a topology again finds no unclaimed run: refused, and the system is unchanged
    try:
        with env.quiet():
            syst.add_ftop(itps[order[0]])
    except Exception:     # noqa: BLE001
        pass
    else:
        raise PropertyViolation("reload-refused", "%s: loading %s a second time (no unclaimed run left) did not raise"
                                % (label, order[0]))
    if len(syst) != n or [mol_view(m) for m in syst] != got:
        raise PropertyViolation("reload-refused", "%s: a refused topology changed the system" % label)
    # non-trivial: >=2 loaded species interleaved, a multi-residue instance next to itself
    names = [sp for sp in sequence]
    loaded_seq = [sp for sp in names if sp in loaded]
    runs = [k for k, _ in itertools.groupby(loaded_seq)]
    interleaved = len(runs) > len(set(runs))
    multi_adjacent = any(a == b and len(species[a]) > 1 and a in loaded for a, b in zip(names, names[1:]))
    return {"nontrivial": interleaved and multi_adjacent,
            "classes": ["len:%d" % min(len(sequence), 7), "loaded:%d" % len(order),
                        "interleaved" if interleaved else "blocks"],
            "sample": {"sequence": sequence, "load_order": order}}


def exhaustive(tier, seed):
    maxlen = 5 if tier == "thorough" else 4          # (7 symbols since rounds 13/14: length 6 would be 2.7 million cases)
    symbols = sorted(FIXED_SPECIES)
    species = {k: [[rn, names] for rn, names in v] for k, v in FIXED_SPECIES.items()}

    def it():
        idx = 0
        for L in range(1, maxlen + 1):
            for seq in itertools.product(symbols, repeat=L):
                present = sorted(set(seq) - UNLOADED)
                if not present:
                    continue
                for order in itertools.permutations(present):
                    idx += 1
                    yield {"species": species, "sequence": list(seq), "load_order": list(order),
                           "seed": int(seed) * 1000003 + idx, "incremental": idx % 3 == 0}
                absent = [s for s in symbols if s not in seq and s not in UNLOADED]
                if absent:
                    idx += 1
                    yield {"species": species, "sequence": list(seq), "load_order": present[:1] + absent[:1],
                           "seed": int(seed) * 1000003 + idx, "incremental": False}
    return it(), True


@st.composite
def random_case(draw, tier):
    nsp = draw(st.integers(2, 5))
    species = {}
    used_kinds = {("SOL", 3)}
    resnames = ["R%d%s" % (k, c) for k in range(6) for c in "ABC"] + ["LIG", "ION", "LIPID", "LIPIE", "W"]
    for s in range(nsp):
        name = "M%d" % s
        nres = draw(st.integers(1, 4))
        residues = []
        pool = []
        for r in range(nres):
            if pool and draw(st.integers(0, 2)) == 0:
                residues.append(pool[draw(st.integers(0, len(pool) - 1))])      # repeated residue inside the species
                continue
            for _ in range(20):
                rn = draw(st.sampled_from(resnames))
                k = draw(st.integers(1, 6))
                if (rn, k) not in used_kinds:
                    break
            else:
                rn, k = "Z%d%d" % (s, r), 1
            used_kinds.add((rn, k))
            res = [rn, ["%s%d" % (draw(st.sampled_from(["C", "N", "O", "H"])), i + 1) for i in range(k)]]
            pool.append(res)
            residues.append(res)
        species[name] = residues
    species["W"] = [["SOL", ["OW", "HW1", "HW2"]]]
    names = sorted(species)
    L = draw(st.integers(1, 300 if tier == "thorough" else 40))
    style = draw(st.sampled_from(["random", "blocks"]))
    if style == "random":
        seq = draw(st.lists(st.sampled_from(names), min_size=L, max_size=L))
    else:
        seq = []
        while len(seq) < L:
            seq += [draw(st.sampled_from(names))] * draw(st.integers(1, 8))
        seq = seq[:L]
    present = sorted(set(seq) - {"W"})
    if not present:
        seq.append(names[0])
        present = [names[0]]
    sub = draw(st.lists(st.sampled_from(present), min_size=1, max_size=len(present), unique=True))
    order = list(draw(st.permutations(sub)))
    if draw(st.integers(0, 9)) == 0:
        absent = [s for s in names if s not in seq and s != "W"]
        if absent:
            order.append(absent[0])
    return {"species": species, "sequence": seq, "load_order": order, "seed": draw(gen.SEEDS),
            "incremental": draw(st.booleans())}


# ------------------------------------------------------------------ histories: topologies added between accesses
@st.composite
def history_op(draw):
    k = draw(st.sampled_from(["load", "load", "walk", "walk", "index", "slice", "partial", "len", "absent", "reload",
                              "iter", "adv", "adv", "zip", "lookalike"]))
    return [k, draw(st.integers(0, 50)), draw(st.integers(-8, 8)), draw(st.sampled_from([-2, -1, 1, 2, 3])),
            draw(st.sampled_from(["ftop", "moltop", "fileobj"]))]


@st.composite
def history_case(draw, tier):
    if draw(st.booleans()):
        species = {k: [[rn, list(names)] for rn, names in v] for k, v in FIXED_SPECIES.items()}
        names = sorted(species)
        seq = draw(st.lists(st.sampled_from(names), min_size=2, max_size=9))
        unloaded = ["W"]
    else:
        base = draw(random_case("quick"))
        species, seq = base["species"], base["sequence"][:30]
        unloaded = ["W"]
    present = [s for s in sorted(set(seq)) if s not in unloaded]
    if not present:
        seq = seq + [sorted(species)[0]]
    ops = draw(st.lists(history_op(), min_size=3, max_size=25 if tier == "thorough" else 14))
    return {"species": species, "sequence": seq, "seed": draw(gen.SEEDS), "ops": ops,
            "initial": draw(st.integers(0, 2))}


def check_history(case):
    from gaddlemaps.components import MoleculeTop
    species = {k: [(rn, list(names)) for rn, names in v] for k, v in case["species"].items()}
    sequence = case["sequence"]
    gro, itps, records, model = build_files(species, sequence, case["seed"])
    present = [s for s in sorted(set(sequence)) if s not in UNLOADED]
    absent = [s for s in sorted(species) if s not in sequence and s not in UNLOADED]
    rng = np.random.default_rng(case["seed"] + 7)
    pending = [present[i] for i in rng.permutation(len(present))]
    loaded = []
    first = pending[:min(case["initial"], len(pending))]
    handles = []
    gfh = None
    if case["seed"] % 3 == 0:
        # the coordinate file is handed over as an opened file (a documented input kind); the same handle then
        # also backs the side Systems of the "lookalike" steps
        gfh = open(gro)
        handles.append(gfh)
    side = []      # (an object built on an opened file closes that file when it is collected: side Systems are kept)
    if gfh is not None:
        syst = lib("load", lambda: System(gfh, *[itps[sp] for sp in first]))
    else:
        syst = lib("load", System, gro, *[itps[sp] for sp in first])
    loaded += first
    pending = pending[len(first):]
    live = []
    walked_then_loaded = False
    walked = False
    nloads_after_walk = 0

    def label():
        return "sequence %r, loaded so far %r" % (sequence if len(sequence) < 12 else sequence[:12] + ["..."], loaded)

    def light(step, what):
        exp = expected_for(model, records, set(loaded))
        if lib("len", len, syst) != len(exp):
            raise PropertyViolation("history-len", "%s, step %d (%s): len()=%d, %d instances of the loaded species"
                                    % (label(), step, what, len(syst), len(exp)))
        comp = {k: v for k, v in dict(syst.composition).items() if v}
        ec = {}
        for e in exp:
            ec[e[0]] = ec.get(e[0], 0) + 1
        if comp != ec:
            raise PropertyViolation("history-composition", "%s, step %d (%s): composition %r, expected %r"
                                    % (label(), step, what, comp, ec))
        return exp

    try:
        for step, (kind, a, b, c, how) in enumerate(case["ops"]):
            if kind == "load":
                if not pending:
                    continue
                sp = pending.pop(a % len(pending))
                if how == "ftop":
                    lib("add_ftop", syst.add_ftop, itps[sp])
                elif how == "fileobj":
                    fh = open(itps[sp])
                    handles.append(fh)
                    lib("add_ftop", syst.add_ftop, fh)
                else:
                    top = lib("moleculetop", MoleculeTop, itps[sp])
                    lib("add_molecule_top", syst.add_molecule_top, top)
                loaded.append(sp)
                if walked:
                    walked_then_loaded = True
                light(step, "after loading " + sp)
                continue
            exp = light(step, kind)
            n = len(exp)
            if kind == "walk":
                got = [mol_view(m) for m in lib("iterate", list, syst)]
                if got != [tuple(e) for e in exp]:
                    raise PropertyViolation("history-iterate", "%s, step %d: iteration yields %r, the file has %r"
                                            % (label(), step, [g[0] for g in got], [e[0] for e in exp]),
                                            cls="history-iterate")
                walked = True
            elif kind == "index":
                if not n:
                    continue
                i = (a % (2 * n)) - n
                m = lib("index", syst.__getitem__, i)
                if mol_view(m) != tuple(exp[i]):
                    raise PropertyViolation("history-index", "%s, step %d: System[%d] is %s with atoms %r, expected %s "
                                            "with atoms %r" % (label(), step, i, m.name, list(m.atoms_ids)[:3],
                                                               exp[i][0], exp[i][3][:3]), cls="history-index")
                walked |= i < 0
            elif kind == "slice":
                sl = slice(None if a % 3 == 0 else b, None if a % 5 == 0 else (a % (n + 3)) - 1, c)
                part = [mol_view(m) for m in lib("slice", syst.__getitem__, sl)]
                if part != [tuple(e) for e in exp[sl]]:
                    raise PropertyViolation("history-slice", "%s, step %d: System[%r] gives %r, expected %r"
                                            % (label(), step, sl, [g[0] for g in part], [e[0] for e in exp[sl]]),
                                            cls="history-slice")
                walked = True
            elif kind == "partial":
                it = iter(syst)
                for k in range(min(n, 1 + a % 4)):
                    with env.quiet():
                        m = next(it)
                    if mol_view(m) != tuple(exp[k]):
                        raise PropertyViolation("history-iterate", "%s, step %d: molecule %d of a partial iteration is %s, "
                                                "expected %s" % (label(), step, k, m.name, exp[k][0]), cls="history-iterate")
            elif kind == "iter":
                # a live iterator kept across the following operations (two consumers of one System)
                if len(live) < 3:
                    live.append([iter(syst), 0, len(loaded)])
            elif kind == "adv":
                if not live:
                    live.append([iter(syst), 0, len(loaded)])
                it = live[a % len(live)]
                if it[2] != len(loaded):
                    live.remove(it)          # started before a further topology was loaded: not comparable any more
                    continue
                for _ in range(1 + a % 3):
                    try:
                        m = lib("iterator-next", next, it[0])
                    except PropertyViolation as exc:
                        if "StopIteration" in exc.message and it[1] == n:
                            live.remove(it)
                            break
                        raise PropertyViolation("history-interleaved", "%s, step %d: resuming a live iterator at molecule "
                                                "%d after other accesses: %s" % (label(), step, it[1], exc.message),
                                                cls="history-interleaved")
                    if it[1] >= n or mol_view(m) != tuple(exp[it[1]]):
                        raise PropertyViolation("history-interleaved", "%s, step %d: a live iterator resumed after other "
                                                "accesses yields %s as molecule %d, the file has %s"
                                                % (label(), step, m.name, it[1], exp[it[1]][0] if it[1] < n else "no more"),
                                                cls="history-interleaved")
                    it[1] += 1
            elif kind == "zip":
                pairs = lib("zip", lambda: [(mol_view(x), mol_view(y)) for x, y in zip(syst, syst)])
                if [p[0] for p in pairs] != [tuple(e) for e in exp] or [p[1] for p in pairs] != [tuple(e) for e in exp]:
                    raise PropertyViolation("history-interleaved", "%s, step %d: zip(system, system) does not yield every "
                                            "molecule twice" % (label(), step), cls="history-interleaved")
                walked = True
            elif kind == "lookalike":
                # a topology with the residue signature of a loaded-or-loadable species but other atom names is refused
                # and leaves the System as it was (error-then-continue)
                if gfh is not None and (a + b) % 2:
                    gfh.seek(0)
                    other = lib("second-system", lambda: System(gfh, *[itps[sp] for sp in loaded]))
                    side.append(other)
                    for j in [x % n for x in (a, a + 1, b)] if n else []:
                        if mol_view(lib("second-index", other.__getitem__, j)) != tuple(exp[j]):
                            raise PropertyViolation("history-index", "%s, step %d: a second System on the same opened file "
                                                    "gives a wrong molecule %d" % (label(), step, j), cls="history-shared-handle")
                        if mol_view(lib("index", syst.__getitem__, (j + c) % n)) != tuple(exp[(j + c) % n]):
                            raise PropertyViolation("history-index", "%s, step %d: System[%d] is wrong while a second System "
                                                    "reads the same opened file" % (label(), step, (j + c) % n),
                                                    cls="history-shared-handle")
                    continue
                cand = [sp for sp in present]
                if not cand:
                    continue
                sp = cand[a % len(cand)]
                fake = [[rn, ["X%d" % (i + 1) for i in range(len(names))]] for rn, names in species[sp]]
                fp = env.fresh_path(".itp")
                with open(fp, "w") as f:
                    f.write(species_itp("FAKE", fake))
                try:
                    with env.quiet():
                        syst.add_ftop(fp)
                except Exception:     # noqa: BLE001
                    pass
                else:
                    raise PropertyViolation("history-refused", "%s, step %d: a topology whose atom names do not match the "
                                            "file (residue signature of %s) was accepted" % (label(), step, sp))
                light(step, "after a refused look-alike topology")
            elif kind in ("absent", "reload"):
                pool = absent if kind == "absent" else loaded
                if not pool:
                    continue
                sp = pool[a % len(pool)]
                try:
                    with env.quiet():
                        if how == "moltop":
                            syst.add_molecule_top(MoleculeTop(itps[sp]))
                        else:
                            syst.add_ftop(itps[sp])
                except Exception:     # noqa: BLE001
                    pass
                else:
                    raise PropertyViolation("history-refused", "%s, step %d: adding %s (%s) did not raise"
                                            % (label(), step, sp, "absent from the file" if kind == "absent" else
                                               "already loaded, no unclaimed run"))
                light(step, "after a refused topology")
        exp = expected_for(model, records, set(loaded))
        if loaded:
            verify_full(syst, exp, label(), case["seed"])
        elif len(syst) != 0 or list(syst):
            raise PropertyViolation("history-len", "a System without topologies is not empty")
    finally:
        for fh in handles:
            fh.close()
    return {"nontrivial": walked_then_loaded and len(loaded) >= 2,
            "classes": ["walk-then-load" if walked_then_loaded else "no-walk-before-load", "loaded:%d" % min(len(loaded), 4),
                        "initial:%d" % len(first)],
            "sample": {"sequence": sequence[:12], "ops": [o[:2] + o[4:] for o in case["ops"][:12]]}}


def long_runs(tier, seed):
    species = {k: [[rn, names] for rn, names in v] for k, v in FIXED_SPECIES.items()}
    runs = [255, 256, 257, 513, 1025] if tier == "thorough" else [257]
    out = []
    for i, r in enumerate(runs):
        seq = ["A"] * 2 + ["B"] * r + ["W"] + ["C"] * (r // 2 + 1) + ["B"] * 2
        out.append({"species": species, "sequence": seq, "load_order": ["C", "B", "A"][i % 3:] + ["C", "B", "A"][:i % 3],
                    "seed": int(seed) * 7919 + i, "incremental": bool(i % 2)})
    return out, True


def many_kinds(tier, seed):
    """130 (thorough: 300) different single-residue kinds in one file; a few of them belong to loaded species, whose
    kind index (order of first appearance) sweeps through all values - including those that mean something as a byte,
    a character or a small table index."""
    nk = 300 if tier == "thorough" else 130
    rng = np.random.default_rng(int(seed) + 99)
    out = []
    idx = sorted(set(range(30, 50)) | {0, 1, 57, 62, 63, 64, 90, 91, 92, 93, 94, 122, 123, 124, 125, 126, 127, 128, 129, nk - 1})
    for start in range(0, len(idx), 6):
        chosen = [k for k in idx[start:start + 6] if k < nk]
        species = {}
        for k in range(nk):
            nm = "S%d" % k if k in chosen else "K%d" % k
            species[nm] = [["R%03d" % k if k < 1000 else "Q%d" % k, ["C%d" % (i + 1) for i in range(1 + k % 3)]]]
        seq = []
        for k in range(nk):
            nm = "S%d" % k if k in chosen else "K%d" % k
            seq += [nm] * (1 + (k in chosen) * 2)
        for k in chosen:                      # further instances of the loaded species at the end
            seq += ["S%d" % k, "K%d" % ((k + 1) % nk) if (k + 1) % nk not in chosen else "S%d" % k]
        out.append({"species": species, "sequence": seq, "load_order": ["S%d" % k for k in reversed(chosen)],
                    "seed": int(seed) * 31 + start, "incremental": bool(start % 2)})
    return out, True


SUBCHECKS = [
    Sub("kinds", check, enumerate=many_kinds,
        note="files with 130 / 300 residue kinds; loaded species at kind indices 0, 1, 30..49, 57, 62..64, 90..94, 122..129, last"),
    Sub("runs", check, enumerate=long_runs,
        note="multi-residue species in uninterrupted runs of 257 (quick) / 255..1025 (thorough) instances"),
    Sub("exhaustive", check, enumerate=exhaustive,
        note="all sequences up to 4 (quick) / 6 (thorough) molecules over 5 species x all load orders"),
    Sub("random", check, strategy=lambda tier: random_case(tier), quick=800, thorough=18000,
        min_share={"interleaved": 0.15}),
    Sub("history", check_history, strategy=lambda tier: history_case(tier), quick=1200, thorough=40000,
        min_share={"walk-then-load": 0.2},
        note="topologies added one by one (add_ftop with a path or an open file, add_molecule_top) between accesses"),
]
