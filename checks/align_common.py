"""Generators shared by the alignment checks (C06, C09, C10)."""
import numpy as np
from hypothesis import strategies as st

from vlib import env, gen  # noqa: F401


@st.composite
def names_with_hydrogens(draw, n, level):
    """At least one non-hydrogen atom."""
    names = draw(gen.atom_names(n, hydrogens=level))
    if all(is_hydrogen(nm) for nm in names):
        k = draw(st.integers(0, n - 1))
        names[k] = "C%d" % (k + 1)
    return names


@st.composite
def molecule_pair(draw, max_atoms=40, kinds_big=("tree", "chain", "star", "cyclic"), multi_residue=False,
                  similar_names=False):
    """Start / end specs: the smaller one (ties: the end) is a connected tree (mobile),
    the other any connected-or-not graph with >=1 bond and >=1 non-hydrogen atom."""
    relation = draw(st.sampled_from(["start-smaller", "start-smaller", "start-larger", "equal"]))
    small = draw(st.integers(1, max(1, max_atoms // 2)))
    if max_atoms >= 40 and draw(st.integers(0, 3)) == 0:
        small = draw(st.integers(20, 38))            # a long, flexible mobile molecule
    if relation == "equal":
        small = max(small, 2)
        big = small
    else:
        big = draw(st.integers(max(2, small + 1), max(max_atoms, small + 1)))
    ns, ne = (small, big) if relation == "start-smaller" else (big, small)
    nres = draw(st.integers(2, 3)) if multi_residue and min(ns, ne) >= 3 else 1

    # corresponding residues whose names differ but contain one another (LYS / LYSH): RS0 against RS0H
    suffix = {"start": "", "end": ""}
    if similar_names and nres > 1 and draw(st.booleans()):
        suffix["end" if draw(st.booleans()) else "start"] = "H"

    def topo(name, n, mobile, which="start"):
        kinds = ("tree", "tree", "chain", "star") if mobile else kinds_big
        if not mobile and draw(st.integers(0, 5)) == 0 and n >= 4:
            kinds = ("forest",)
        top = draw(gen.mol_topology(name, n, kinds=kinds, nres=nres, hydrogens="none"))
        if n >= 2 and not top["edges"]:
            top["edges"] = [[0, 1]]
        hyd = draw(st.sampled_from(["none", "some", "some", "many"]))
        names = draw(names_with_hydrogens(n, hyd))
        k = 0
        res = []
        for r, (rn, ri, old) in enumerate(top["residues"]):
            res.append(["RS%d%s" % (r, suffix[which]) if multi_residue else rn, ri, names[k:k + len(old)]])
            k += len(old)
        top["residues"] = res
        return top
    mobile_is_start = ns < ne
    start = topo("SPEC", ns, mobile_is_start)
    end = topo("SPEC", ne, not mobile_is_start, "end")
    rng = np.random.default_rng(draw(gen.SEEDS))
    spos = gen.walk_geometry(ns, start["edges"], rng, lo=0.15, hi=0.5)
    epos = gen.walk_geometry(ne, end["edges"], rng, lo=0.1, hi=0.3) + rng.uniform(-3, 3, 3)
    degenerate = False
    if draw(st.integers(0, 3)) == 0:
        # a branching atom of the mobile molecule whose first three neighbours are exactly collinear
        # (beads placed on a grid): a legitimate geometry for which no perpendicular direction exists
        mspec, mpos = (start, spos) if mobile_is_start else (end, epos)
        nb = {}
        for a, b in mspec["edges"]:
            nb.setdefault(a, []).append(b)
            nb.setdefault(b, []).append(a)
        hubs = [a for a, v in nb.items() if len(v) >= 3]
        if hubs:
            hub = hubs[draw(st.integers(0, len(hubs) - 1))]
            n1, n2, n3 = sorted(nb[hub])[:3]
            base = np.round(mpos[hub] * 4) / 4
            d = np.array([[1, 0, 0], [0, 1, 0], [1, 1, 0], [1, -1, 1]][draw(st.integers(0, 3))], float) * 0.25
            off = np.array([0, 0, 0.25]) if d[2] == 0 else np.array([0.25, 0, 0])
            mpos[hub] = base
            mpos[n1] = base + off - d
            mpos[n2] = base + off
            mpos[n3] = base + off + d
            degenerate = True
    far = draw(st.integers(0, 5)) == 0 or (small >= 20 and draw(st.booleans()))      # long molecules: half of them far away
    if far:
        # anywhere in the range a coordinate file can hold (-999.999 .. 9999.999 nm): box-scale offsets of both molecules
        spos = spos + np.round(rng.uniform(-900, 9900, 3), 3)
        epos = epos + np.round(rng.uniform(-900, 9900, 3), 3)
    return {"relation": relation, "start": gen.with_coords(start, spos), "end": gen.with_coords(end, epos),
            "degenerate_mobile": degenerate, "far": far}


@st.composite
def restraint_list(draw, ns, ne, max_len=8):
    if draw(st.integers(0, 2)) == 0:
        return []
    k = draw(st.integers(1, max_len))
    out = [[draw(st.integers(0, ns - 1)), draw(st.integers(0, ne - 1))] for _ in range(k)]
    if draw(st.booleans()) and out:
        out.append(list(out[0]))           # a repeated pair
    return out


@st.composite
def deformation_types(draw, mobile_atoms, allow_none=True):
    opts = [(0,), (1,), (0, 1), (1, 0)]
    if mobile_atoms >= 2:
        opts += [(2,), (0, 2), (1, 2), (0, 1, 2), (2, 1, 0), (0, 1, 2)]
    if allow_none:
        opts.append(None)
    return draw(st.sampled_from(opts))


def is_hydrogen(name):
    import re
    m = re.findall(r"([A-Za-z]+)", name)
    return bool(m) and m[0] == "H"


def atom_names(spec):
    return [an for _, _, names in spec["residues"] for an in names]
