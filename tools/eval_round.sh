#!/bin/bash
# eval_round.sh <letter> <src-root> <Cnn> [<Cnn> ...] : evaluates the seeds <Cnn>-<letter> found under
# <src-root>/<Cnn>-<letter>/_seed (or already stored in /verif/seeded/<Cnn>-<letter>) in parallel (4 at a time)
# with tools/eval_seed.sh against the quick check of their own property; prints one summary line per seed.
L=$1; ROOT=$2; shift 2
cd "$(dirname "$0")/.."
run() {
  k=$1
  src="$ROOT/$k-$L/_seed"; [ -d "$src" ] || src="seeded/$k-$L"
  tools/eval_seed.sh "$src" "$k-$L" "$k" > "/tmp/eval_$k-$L.out" 2>&1
  echo "$k-$L | $(grep -o 'demo clean rc=[0-9]*' /tmp/eval_$k-$L.out) | $(grep -o 'demo patched rc=[0-9]*' /tmp/eval_$k-$L.out) | $(grep -o 'tests rc=[0-9]*' /tmp/eval_$k-$L.out) | $(tail -1 /tmp/eval_$k-$L.out | cut -c1-220)"
}
n=0
for k in "$@"; do
  run "$k" &
  n=$((n+1))
  if [ $((n % 4)) -eq 0 ]; then wait; fi
done
wait
