#!/bin/bash
# seed_sweep.sh <tier> <seed> [<seed>...] : run_all for several seeds, print only problems
TIER=$1; shift
cd "$(dirname "$0")/.."
for s in "$@"; do
  echo "=== seed $s"
  bash tools/run_all.sh $TIER $s | grep -v " rc=0 " 
done
echo "sweep done"
