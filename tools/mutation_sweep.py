#!/venv/bin/python
"""Token-level mutation sweep (development aid, not a registered check).

For a seeded sample of single-token mutants of the anchored source files it runs
the quick checks mapped to the file against a scratch copy of the package
(VERIF_REPO) and reports which mutants no check kills; for those it also runs the
repository's own tests, to tell 'gap of the checks' from 'also invisible to the
suite / probably equivalent'.

usage: mutation_sweep.py <n mutants> <seed> <out.json> [jobs]
"""
import io
import json
import os
import random
import shutil
import subprocess
import sys
import tempfile
import tokenize
from concurrent.futures import ThreadPoolExecutor

REPO = "/repo"
VERIF = os.path.dirname(os.path.dirname(os.path.abspath(__file__)))

FILES = {
    "gaddlemaps/_exchage_map.py": ["C01", "C02", "C03", "C04", "C05"],
    "gaddlemaps/_auxilliary.py": ["C17", "C01", "C02", "C09"],
    "gaddlemaps/_backend.py": ["C08", "C09", "C06"],
    "gaddlemaps/_transform_molecule.py": ["C07", "C09", "C06"],
    "gaddlemaps/_alignment.py": ["C06", "C10", "C05"],
    "gaddlemaps/_manager.py": ["C05", "C10", "C20"],
    "gaddlemaps/_cli.py": ["C20"],
    "gaddlemaps/components/_system.py": ["C11", "C12", "C05"],
    "gaddlemaps/components/_components.py": ["C18", "C04", "C11", "C05"],
    "gaddlemaps/components/_components_top.py": ["C15", "C03", "C11"],
    "gaddlemaps/components/_residue.py": ["C18", "C19", "C12"],
    "gaddlemaps/components/__init__.py": ["C15", "C06"],
    "gaddlemaps/parsers/__init__.py": ["C13", "C14", "C12"],
    "gaddlemaps/parsers/_itp_parse.py": ["C16", "C15"],
    "gaddlemaps/parsers/_top_parsers.py": ["C15", "C16"],
}

SWAPS = {"<": ["<="], "<=": ["<"], ">": [">="], ">=": [">"], "==": ["!="], "!=": ["=="],
         "+": ["-"], "-": ["+"], "*": ["/"], "/": ["*"], "//": ["/"], "%": ["//"],
         "and": ["or"], "or": ["and"], "True": ["False"], "False": ["True"],
         "+=": ["-="], "-=": ["+="], "min": ["max"], "max": ["min"], "is": ["is not"]}


def sites(path):
    src = open(os.path.join(REPO, path)).read()
    toks = list(tokenize.generate_tokens(io.StringIO(src).readline))
    out = []
    depth_doc = False
    for i, t in enumerate(toks):
        if t.type == tokenize.OP or t.type == tokenize.NAME:
            if t.string in SWAPS:
                # skip unary minus in obviously constant contexts? keep: it is a legitimate mutant
                for new in SWAPS[t.string]:
                    out.append((path, i, t.start, t.end, t.string, new))
            if t.string == "not" and t.type == tokenize.NAME:
                out.append((path, i, t.start, t.end, "not", ""))
        elif t.type == tokenize.NUMBER:
            s = t.string
            if s.isdigit() and int(s) < 10000:
                out.append((path, i, t.start, t.end, s, str(int(s) + 1)))
                if int(s) > 0:
                    out.append((path, i, t.start, t.end, s, str(int(s) - 1)))
    return src, out


def apply(src, site):
    _, _, (r0, c0), (r1, c1), old, new = site
    lines = src.split("\n")
    line = lines[r0 - 1]
    assert line[c0:c1] == old, (line, old)
    lines[r0 - 1] = line[:c0] + new + line[c1:]
    return "\n".join(lines)


def run_one(k, site, workroot):
    path = site[0]
    d = os.path.join(workroot, "m%d" % k)
    os.makedirs(d)
    shutil.copytree(os.path.join(REPO, "gaddlemaps"), os.path.join(d, "gaddlemaps"),
                    ignore=shutil.ignore_patterns("__pycache__"))
    src = open(os.path.join(REPO, path)).read()
    new = apply(src, site)
    with open(os.path.join(d, path), "w") as f:
        f.write(new)
    res = {"k": k, "file": path, "line": site[2][0], "old": site[4], "new": site[5],
           "text": src.split("\n")[site[2][0] - 1].strip()[:120], "checks": {}}
    try:
        compile(new, path, "exec")
    except SyntaxError:
        res["status"] = "invalid"
        shutil.rmtree(d, ignore_errors=True)
        return res
    killed = False
    for prop in FILES[path]:
        env = dict(os.environ, VERIF_REPO=d, VERIF_NPROC="4", VERIF_SEED="1", VERIF_OUT_DIR=os.path.join(d, "out"))
        try:
            p = subprocess.run(["/venv/bin/python", os.path.join(VERIF, "run_check.py"), prop],
                               capture_output=True, text=True, env=env, timeout=600)
            rc = p.returncode
        except subprocess.TimeoutExpired:
            rc = 124
        res["checks"][prop] = rc
        if rc != 0:
            killed = True
            break
    res["status"] = "killed" if killed else "survived"
    if not killed:
        # does the repository's own suite see it?
        shutil.copytree(os.path.join(REPO, "test"), os.path.join(d, "test"), ignore=shutil.ignore_patterns("__pycache__"))
        for fn in ("setup.py", "README.md"):
            if os.path.exists(os.path.join(REPO, fn)):
                shutil.copy(os.path.join(REPO, fn), d)
        try:
            p = subprocess.run(["bash", os.path.join(VERIF, "tools", "repo_tests.sh"), d],
                               capture_output=True, text=True, timeout=1500)
            res["repo_tests_rc"] = p.returncode
            res["repo_tests"] = p.stdout.strip().split("\n")[0][:200]
        except subprocess.TimeoutExpired:
            res["repo_tests_rc"] = 124
    shutil.rmtree(d, ignore_errors=True)
    return res


def main():
    n, seed, out = int(sys.argv[1]), int(sys.argv[2]), sys.argv[3]
    jobs = int(sys.argv[4]) if len(sys.argv) > 4 else 4
    rng = random.Random(seed)
    allsites = []
    for path in FILES:
        _, s = sites(path)
        allsites += s
    rng.shuffle(allsites)
    chosen = allsites[:n]
    workroot = tempfile.mkdtemp(prefix="gm-mut-")
    results = []
    try:
        with ThreadPoolExecutor(jobs) as ex:
            for r in ex.map(lambda kv: run_one(kv[0], kv[1], workroot), enumerate(chosen)):
                results.append(r)
                print("%4d %-9s %s:%d  %r -> %r   %s  %s" % (r["k"], r["status"], r["file"].split("/")[-1], r["line"],
                                                            r["old"], r["new"], r["checks"], r.get("repo_tests_rc", "")),
                      flush=True)
                with open(out, "w") as f:
                    json.dump(results, f, indent=1)
    finally:
        shutil.rmtree(workroot, ignore_errors=True)
    surv = [r for r in results if r["status"] == "survived"]
    print("total %d, killed %d, survived %d (of which the repository tests also pass: %d), invalid %d"
          % (len(results), sum(r["status"] == "killed" for r in results), len(surv),
             sum(r.get("repo_tests_rc") == 0 for r in surv), sum(r["status"] == "invalid" for r in results)))


if __name__ == "__main__":
    main()
