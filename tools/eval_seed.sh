#!/bin/bash
# eval_seed.sh <srcdir with patch.diff demo.py meta.json> <seed-id e.g. C02-a> <Cnn to run> [more Cnn]
# Confirms a seeded change in a scratch worktree (tests unchanged, demo PASS without / FAIL with) and runs checks on it.
set -u
SRC=$1; ID=$2; shift 2
DEST=/verif/seeded/$ID
mkdir -p "$DEST"
cp "$SRC/patch.diff" "$SRC/demo.py" "$DEST/" 2>/dev/null
[ -f "$SRC/meta.json" ] && cp "$SRC/meta.json" "$DEST/agent_meta.json"
W=$(mktemp -d /tmp/gm-seed.XXXXXX)
T=$(mktemp -d /tmp/gm-seedtmp.XXXXXX)
git -C /repo worktree add -q --detach "$W" HEAD || exit 2
mkdir -p "$W/_seed"; cp "$DEST/demo.py" "$W/_seed/demo.py"
( cd "$W" && /venv/bin/python _seed/demo.py "$W" >$T/demo_clean.out 2>&1 ); RC_CLEAN=$?
git -C "$W" apply "$DEST/patch.diff" || { echo "PATCH DOES NOT APPLY"; git -C /repo worktree remove --force "$W"; exit 2; }
( cd "$W" && /venv/bin/python _seed/demo.py "$W" >$T/demo_patched.out 2>&1 ); RC_PATCHED=$?
/verif/tools/repo_tests.sh "$W" > $T/seed_tests.out 2>&1; RC_TESTS=$?
echo "demo clean rc=$RC_CLEAN ($(tail -1 $T/demo_clean.out | cut -c1-80)) | demo patched rc=$RC_PATCHED ($(tail -1 $T/demo_patched.out | cut -c1-120)) | tests rc=$RC_TESTS ($(head -1 $T/seed_tests.out))"
RES=""
for P in "$@"; do
  VERIF_OUT_DIR="$W/_verif_out" VERIF_REPO="$W" /venv/bin/python /verif/run_check.py "$P" --tier ${TIER:-quick} >$T/seed_check.out 2>$T/seed_check.err; rc=$?
  echo "  $P rc=$rc  $(grep -m1 '^violation' $T/seed_check.err | cut -c1-260)"
  RES="$RES $P=$rc"
done
git -C /repo worktree remove --force "$W"; rm -rf "$W" "$T"
echo "{\"seed\": \"$ID\", \"demo_clean_rc\": $RC_CLEAN, \"demo_patched_rc\": $RC_PATCHED, \"repo_tests_rc\": $RC_TESTS, \"checks\": \"$RES\", \"tier\": \"${TIER:-quick}\"}" > "$DEST/confirm.json"
