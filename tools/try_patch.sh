#!/bin/bash
# usage: try_patch.sh <patch.diff | revert:<commit>> <Cnn> [more Cnn...]   (env TESTS=1 also runs the repo tests)
# Applies a change to a scratch worktree of /repo (outside /repo and /verif), runs the quick checks
# against it with VERIF_REPO, prints exit codes, removes the worktree.
set -u
PATCH=$1; shift
[[ "$PATCH" != revert:* ]] && PATCH=$(realpath "$PATCH")
W=$(mktemp -d /tmp/gm-wt.XXXXXX)
git -C /repo worktree add -q --detach "$W" HEAD || exit 2
cp /repo/gaddlemaps/data/system_CG.gro "$W/gaddlemaps/data/system_CG.gro" 2>/dev/null
if [[ "$PATCH" == revert:* ]]; then
  git -C "$W" revert -n "${PATCH#revert:}" >/dev/null || { echo "revert failed"; git -C /repo worktree remove --force "$W"; exit 2; }
else
  git -C "$W" apply "$PATCH" || { echo "apply failed"; git -C /repo worktree remove --force "$W"; exit 2; }
fi
if [[ "${TESTS:-0}" == 1 ]]; then /verif/tools/repo_tests.sh "$W"; echo "repo tests rc=$?"; fi
for P in "$@"; do
  VERIF_OUT_DIR="$W/_verif_out" VERIF_REPO="$W" /venv/bin/python /verif/run_check.py "$P" --tier ${TIER:-quick} 2>/tmp/try_patch.err | tail -4
  echo "$P rc=${PIPESTATUS[0]}"
  grep -m3 "^violation" /tmp/try_patch.err | cut -c1-400
done
git -C /repo worktree remove --force "$W"
rm -rf "$W"
# evidence/replays written by these runs are scratch
