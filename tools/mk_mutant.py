#!/venv/bin/python
"""mk_mutant.py <name> <file relative to repo> <old> <new> : writes /verif/mutants/<name>.diff
(a unified diff against /repo HEAD produced from an in-memory replacement; /repo is not touched)."""
import difflib, sys, subprocess
name, rel, old, new = sys.argv[1:5]
src = subprocess.check_output(["git", "-C", "/repo", "show", "HEAD:" + rel]).decode()
old = old.encode().decode("unicode_escape"); new = new.encode().decode("unicode_escape")
if src.count(old) != 1:
    sys.exit("pattern occurs %d times" % src.count(old))
dst = src.replace(old, new)
diff = "".join(difflib.unified_diff(src.splitlines(True), dst.splitlines(True), "a/" + rel, "b/" + rel))
open("/verif/mutants/%s.diff" % name, "w").write(diff)
print(diff)
