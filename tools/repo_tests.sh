#!/bin/bash
# Runs the repository's pinned test suite (guard off) and compares with BASELINE.json stable_pass.
REPO=${1:-/repo}
OUT=$(mktemp /tmp/junit.XXXXXX.xml)
cd "$REPO" && /venv/bin/python -m pytest -ra -q -p no:cacheprovider --timeout=900 --continue-on-collection-errors --junitxml="$OUT" >/dev/null 2>&1
/venv/bin/python - "$OUT" <<'PY'
import json, sys, xml.etree.ElementTree as ET
base = json.load(open('/root/.vp/BASELINE.json'))
want = set(base['stable_pass'])
root = ET.parse(sys.argv[1]).getroot()
passed = set()
for tc in root.iter('testcase'):
    bad = any(ch.tag in ('failure', 'error', 'skipped') for ch in tc)
    cls = tc.get('classname'); name = tc.get('name')
    parts = cls.split('.')
    # classname like test.components.test_components.TestAtom -> baseline uses module.Class::name or module::name
    if parts[-1][:1].isupper():
        ident = '.'.join(parts) + '::' + name
    else:
        ident = cls + '::' + name
    if not bad:
        passed.add(ident)
missing = sorted(want - passed)
print("baseline stable_pass: %d, passing now: %d, missing: %d" % (len(want), len(want & passed), len(missing)))
for m in missing: print("  MISSING", m)
sys.exit(1 if missing else 0)
PY
rc=$?
rm -f "$OUT"
exit $rc
