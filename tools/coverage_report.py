#!/venv/bin/python
"""coverage_report.py <dir with cov-*.json> : lines of gaddlemaps never executed by the checks (executable lines by ast)."""
import ast, glob, json, os, sys
d = sys.argv[1]
hits = {}
for f in glob.glob(os.path.join(d, "cov-*.json")):
    for fn, ln in json.load(open(f)):
        hits.setdefault(fn, set()).add(ln)
repo = os.environ.get("VERIF_REPO", "/repo")
total = miss_total = 0
for fn in sorted(glob.glob(repo + "/gaddlemaps/**/*.py", recursive=True)):
    if "_represent" in fn:
        continue
    src = open(fn).read()
    tree = ast.parse(src)
    lines = set()
    for node in ast.walk(tree):
        if isinstance(node, ast.stmt) and not isinstance(node, (ast.FunctionDef, ast.ClassDef, ast.Import, ast.ImportFrom)):
            if isinstance(node, ast.Expr) and isinstance(getattr(node, "value", None), ast.Constant) and isinstance(node.value.value, str):
                continue
            lines.add(node.lineno)
    h = hits.get(fn, set())
    miss = sorted(l for l in lines if l not in h)
    # drop module-level lines (executed at import, before tracing)
    body_level = set(n.lineno for n in tree.body)
    miss = [l for l in miss if l not in body_level]
    total += len(lines); miss_total += len(miss)
    print("%-55s %4d stmts, %4d never executed: %s" % (fn.replace(repo + "/", ""), len(lines), len(miss), miss[:80]))
print("total", total, "missed", miss_total)
