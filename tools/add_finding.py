#!/venv/bin/python
import json, sys
prop, commit, sub, cls, what = sys.argv[1:6]
p = '/verif/known_findings.json'
d = json.load(open(p))
d['findings'].append({"property": prop, "status": "fixed", "commit": commit, "subcheck": sub, "cls": cls,
                      "what": "fixed: property=%s %s %s" % (prop, commit, what)})
json.dump(d, open(p, 'w'), indent=1)
