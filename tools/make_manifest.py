#!/venv/bin/python
"""Regenerates MANIFEST.json from the table below and the check modules present."""
import glob
import json
import os

HERE = os.path.dirname(os.path.dirname(os.path.abspath(__file__)))

PY = "/venv/bin/python"

TABLE = {
    "C01": ("exploration", "4 C01",
            "generated-input search (Hypothesis) against an independent anchor-and-scale oracle",
            "Oracle re-implements the statement (nearest atom with >=2 bonds, a+s(p-a)) from the "
            "generated edge list; it never builds frames. Trusted: numpy, the harness' itp writer."),
    "C02": ("exploration", "4 C02",
            "metamorphic property-based testing: rigid motion of the reference vs rigid motion of the result",
            "Rotations are built by the harness (QR / cube group), invariants for free axes as in the statement."),
    "C03": ("exploration", "4 C03",
            "metamorphic property-based testing: deformation of the reference, distance and locality relations",
            "Frame neighbours computed from the generated edge list; conformations kept generic (sin>=1e-3)."),
    "C04": ("exploration", "4 C04",
            "model-based history generation (operation sequences) against a fresh-map reference model",
            "Histories are generated operation lists interpreted against the library and a model "
            "that rebuilds a fresh map from pristine specs for every call."),
    "C05": ("exploration", "4 C05",
            "generated systems, differential against per-molecule exchange maps with an independent .gro reader",
            "Output files are parsed by the harness' own fixed-column reader; input molecules cross-checked against the generated spec."),
    "C06": ("exploration", "4 C06",
            "property-based testing over molecules, restraints, deformation sets and random streams; invariant oracle",
            "Random stream = numpy seed drawn by Hypothesis. Python engine only (no compiled backend in this sandbox)."),
    "C07": ("exploration", "4 C07",
            "exhaustive enumeration of labelled trees (Pruefer) plus Hypothesis search; bond-table oracle",
            "All labelled trees up to the stated size x every moved atom are enumerated; coordinates from a seeded generator."),
    "C08": ("exploration", "4 C08",
            "differential testing against a naive triple-loop definition plus metamorphic relations",
            "Ties between nearest mobile atoms are detected and judged against the admissible set."),
    "C09": ("exploration", "4 C09",
            "trace recording of the Monte-Carlo loop replayed against a reference model; statistical test of the acceptance rule",
            "Observation by wrapping module-level names resolved at call time; exits 2 if they are bypassed."),
    "C10": ("exploration", "4 C10",
            "property-based testing with a recording optimiser stub; exhaustive 40x40 enumeration of the residue splitter",
            "The optimiser entry point is replaced in the harness process by a recorder; intended atoms identified by coordinates."),
    "C11": ("exploration", "4 C11",
            "exhaustive enumeration of short molecule sequences x topology load orders plus Hypothesis search; list model oracle",
            "Files by the harness' writer; species have private residue kinds (assumption of the statement)."),
    "C12": ("exploration", "4 C12",
            "model-based access histories (index/slice/partial iteration) against an independently parsed file",
            "Model = list of residues from the harness' own parser of the same bytes."),
    "C13": ("exploration", "4 C13",
            "round-trip property-based testing through the library writer and reader plus raw byte-length check",
            "Coordinates on and off the decimal grid, numbers at the five-digit boundaries."),
    "C14": ("fault_enumeration", "4 C14",
            "fault enumeration: every writer crash point (operation granularity) and every byte prefix of generated and shipped files",
            "Crash states captured by a proxy for open() inside gaddlemaps.parsers; exhaustive per file."),
    "C15": ("exploration", "4 C15",
            "generated topology files vs the generating graph; iterative connectivity oracle",
            "Topology text written by the harness with gaps, multi-section bonds, comments and directives."),
    "C16": ("exploration", "4 C16",
            "round-trip property-based testing and coverage-guided fuzzing (atheris) with an independent section splitter",
            "The oracle parses the original text itself, so it sees what the first library parse dropped."),
    "C17": ("exploration", "4 C17",
            "property-based testing of algebraic laws of rotations and of frame orthonormality by geometry class",
            "Tolerances 1e-12 (rotations) and 1e-9 (frames); ill-conditioned near-collinear triples are not generated."),
    "C18": ("exploration", "4 C18",
            "model-based operation sequences over a pool of objects with an aliasing-free reference model",
            "Every pooled object has an independent model; after each operation all objects are compared with their models."),
    "C19": ("exploration", "4 C19",
            "differential against brute-force minimum image (orthorhombic) and metamorphic lattice-shift relations",
            "Separations within 1e-4 of half a box edge are not generated (ties)."),
    "C20": ("exploration", "4 C20",
            "differential CLI vs library workflow on generated directories; subprocess runs over hash seeds and listing orders",
            "Alignment.STEPS_FACTOR lowered identically on both sides; hash seeds 0..7 plus random."),
}

NOT_YET = "check not built yet in this session; see DESIGN.md section 4 for the planned generator and oracle"


def main():
    present = sorted(os.path.basename(p)[:3].upper()
                     for p in glob.glob(os.path.join(HERE, "checks", "c[0-9][0-9]_*.py")))
    checks = []
    na = []
    for pid in sorted(TABLE):
        level, ref, technique, note = TABLE[pid]
        if pid not in present:
            na.append({"property_id": pid, "reason": NOT_YET})
            continue
        checks.append({
            "property_id": pid,
            "quick_cmd": "%s run_check.py %s --tier quick" % (PY, pid),
            "thorough_cmd": "%s run_check.py %s --tier thorough" % (PY, pid),
            "evidence_file": "/verif/evidence/%s.json" % pid,
            "replay_cmd_template": "%s run_check.py %s --replay {path}" % (PY, pid),
            "engine": "hypothesis-runner",
            "level_claimed": {"category": level,
                              "text": LEVEL_TEXT[level],
                              "design_ref": "DESIGN.md section " + ref},
            "level_note": note,
            "technique": technique,
        })
    manifest = {
        "version": 1,
        "setup_cmd": ("(/venv/bin/python -c 'import hypothesis' 2>/dev/null || /venv/bin/pip install -q "
                      "--no-index --find-links /opt/veriftools/wheels hypothesis) && "
                      "(/venv/bin/python -c 'import sys; sys.path.append(\"/verif/.deps\"); import jsonschema, atheris' "
                      "2>/dev/null || /venv/bin/pip install -q --no-index --find-links /opt/veriftools/wheels "
                      "--target /verif/.deps jsonschema atheris || true)"),
        "hooks": {
            "guard": "GADDLEMAPS_VERIF",
            "enable": "no source hooks: observation is by return values, files and harness-side wrappers; "
                      "checks import /repo's working tree directly (pure Python, nothing to build)",
            "baseline_off_cmd": "cd /repo && /venv/bin/python -m pytest -ra -q -p no:cacheprovider --timeout=900 "
                                "--continue-on-collection-errors",
            "source_commits": [],
            "add_only": True,
        },
        "engines": [{"name": "hypothesis-runner", "path": "/verif/run_check.py",
                     "serves_properties": present,
                     "kind_free_text": "Hypothesis 6.168 generators sharded over 16 processes, exhaustive "
                                       "enumerators for finite sub-domains, JSON replay files, atheris campaign for C16"}],
        "checks": checks,
        "not_applicable": na,
        "notes": "All checks: exit 0 held / 1 violation / 2 harness error. VERIF_SEED selects the random streams; "
                 "PYTHONHASHSEED is pinned to 0 by the runner; a quarter of every check's cases additionally runs in "
                 "a python -O child. known_findings.json lists the genuine defects found: 15 repaired by fix: "
                 "commits in /repo (status fixed, suppress nothing) and one recorded as known (C14, an atom record of "
                 "nine numeric tokens is indistinguishable from a box line): C14 prints a KNOWN-FINDING line for it "
                 "and exits 0. seeded/ holds independent property-breaking changes "
                 "used to test the checks; DESIGN.md section 9 records which check catches which.",
    }
    with open(os.path.join(HERE, "MANIFEST.json"), "w") as f:
        json.dump(manifest, f, indent=1)
        f.write("\n")
    print("MANIFEST: %d checks, %d not_applicable" % (len(checks), len(na)))


LEVEL_TEXT = {
    "exploration": "Generated-input search with an explicit, implementation-independent oracle: the property held on "
                   "every generated case (thousands to hundreds of thousands per run, class distribution measured); "
                   "finite sub-domains named in the evidence are enumerated completely. It does not establish absence "
                   "outside the generated classes.",
    "fault_enumeration": "Every crash point of the writer at operation granularity and every byte-level truncation of "
                         "each generated and shipped file is enumerated and judged; exhaustive per file, files are generated.",
}

if __name__ == "__main__":
    main()
