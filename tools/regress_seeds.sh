#!/bin/bash
# regress_seeds.sh [jobs] [pattern] : runs, for every stored seeded change (seeded/<Cnn>-<x>/patch.diff matching the
# pattern, default all), the quick check of its property against a scratch worktree of /repo with the change applied.
# Prints one line per seed; "MISSED" marks a change the check no longer reports.  Seeds whose patch does not apply to
# the current /repo HEAD (they predate a fix: commit) are listed as "stale".  Nothing is written into seeded/.
J=${1:-3}; PAT=${2:-C}
HERE="$(cd "$(dirname "$0")/.." && pwd)"
one() {
  d=$1; id=$(basename $d); P=${id%%-*}
  W=$(mktemp -d /tmp/gm-rs.XXXXXX)
  git -C /repo worktree add -q --detach "$W" HEAD 2>/dev/null || { echo "$id worktree-failed"; return; }
  if git -C "$W" apply "$d/patch.diff" 2>/dev/null; then
    VERIF_OUT_DIR="$W/_verif_out" VERIF_REPO="$W" /venv/bin/python "$HERE/run_check.py" "$P" --tier quick >"$W/_o" 2>"$W/_e"; rc=$?
    if [ $rc -eq 1 ]; then echo "$id caught  $(grep -m1 '^violation' $W/_e | cut -c1-140)"; else echo "$id MISSED rc=$rc $(tail -1 $W/_e | cut -c1-160)"; fi
  else
    echo "$id stale (patch does not apply to HEAD)"
  fi
  git -C /repo worktree remove --force "$W" 2>/dev/null; rm -rf "$W"
}
export -f one; export HERE
ls -d "$HERE"/seeded/${PAT}* | xargs -P "$J" -I{} bash -c 'one {}'
git -C /repo worktree prune
echo "regress done"
