#!/usr/bin/env python3
"""prep_round.py <letter> <flavour.txt> [--item2 <file>]: prepares one round of independent seeded changes.

For every property Cnn it adds a scratch git worktree of /repo at /tmp/sw/Cnn-<letter> and writes
/tmp/sw/Cnn-<letter>.prompt.txt (from tools/seed_prompt.tmpl) and /tmp/sw/Cnn-<letter>.property.json.  The
prompt lists the earlier seeds of that property (from seeded/*/meta.json) as changes not to repeat; <flavour.txt>
replaces the lead-in of that list (what kind of change / trigger to prefer this round), --item2 optionally
replaces requirement 2 (what the change should look like).  Nothing of /verif's checks is given to the agents."""
import json
import os
import subprocess
import sys

VERIF = os.path.dirname(os.path.dirname(os.path.abspath(__file__)))
letter, flavour = sys.argv[1], open(sys.argv[2]).read().strip()
item2 = None
if "--item2" in sys.argv:
    item2 = open(sys.argv[sys.argv.index("--item2") + 1]).read().strip()
t = open(os.path.join(VERIF, "tools", "seed_prompt.tmpl")).read()
head4 = [l for l in t.split("\n") if l.startswith("4. ")][0]
t = t.replace(head4, "4. " + flavour)
if item2:
    head2 = [l for l in t.split("\n") if l.startswith("2. ")][0]
    t = t.replace(head2, "2. " + item2)
os.makedirs("/tmp/sw/tools", exist_ok=True)
subprocess.run(["cp", os.path.join(VERIF, "tools", "repo_tests.sh"), "/tmp/sw/tools/"], check=True)
props = {}
for l in open(os.path.join(VERIF, "properties.jsonl")):
    p = json.loads(l)
    p.pop("hook_needed", None)
    props[p["id"]] = p
for pid in sorted(props):
    av = []
    for r in "abcdefghijklmnopqrstuvwxyz":
        if r >= letter:
            break
        mp = os.path.join(VERIF, "seeded", "%s-%s" % (pid, r), "meta.json")
        if os.path.exists(mp):
            m = json.load(open(mp))
            av.append("   - (%s) %s  [needed: %s]" % (r, (m.get("breaks") or "")[:240].replace("\n", " "),
                                                     (m.get("needs") or "")[:180].replace("\n", " ")))
    wt = "/tmp/sw/%s-%s" % (pid, letter)
    open(wt + ".prompt.txt", "w").write(t.replace("@WT@", wt).replace("@AVOID@", "\n".join(av)))
    json.dump(props[pid], open(wt + ".property.json", "w"), indent=1)
    if not os.path.isdir(wt):
        subprocess.run(["git", "-C", "/repo", "worktree", "add", "-q", "--detach", wt, "HEAD"], check=True)
print("prepared round", letter, "for", len(props), "properties under /tmp/sw")
