#!/usr/bin/env python3
"""mk_seed_meta.py [--origin TEXT] [seed-id ...]: writes seeded/<id>/meta.json from the
agent's own description (agent_meta.json) and the confirmation record (confirm.json)
written by tools/eval_seed.sh.  Without ids: every seed that has no meta.json yet."""
import json, os, sys
ROOT = os.path.join(os.path.dirname(os.path.abspath(__file__)), '..', 'seeded')
args = sys.argv[1:]
origin = "fresh sub-agent given the property text, one-line notes on earlier seeds to avoid, and a scratch worktree"
if args and args[0] == '--origin':
    origin = args[1]; args = args[2:]
ids = args or sorted(d for d in os.listdir(ROOT) if not os.path.exists(os.path.join(ROOT, d, 'meta.json')))
for sid in ids:
    d = os.path.join(ROOT, sid)
    am = {}
    if os.path.exists(os.path.join(d, 'agent_meta.json')):
        try:
            am = json.load(open(os.path.join(d, 'agent_meta.json')))
        except Exception as e:
            am = {"breaks": "(agent description not valid JSON: %s)" % e}
    cf = json.load(open(os.path.join(d, 'confirm.json')))
    meta = {
        "seed": sid,
        "property": sid.split('-')[0],
        "breaks": am.get("breaks", ""),
        "needs": am.get("needs", ""),
        "why_tests_pass": am.get("why_tests_pass", ""),
        "files_changed": am.get("files_changed", []),
        "origin": origin,
        "what_was_run": {
            "command": "tools/eval_seed.sh <agent output dir> %s %s" % (sid, cf.get("checks", "").replace('=0', '').replace('=1', '').strip()),
            "repo_tests_vs_baseline_rc": cf.get("repo_tests_rc"),
            "demo_on_unchanged_tree_rc": cf.get("demo_clean_rc"),
            "demo_with_change_rc": cf.get("demo_patched_rc"),
            "checks_rc (1 = violation reported)": cf.get("checks"),
            "tier": cf.get("tier"),
        },
    }
    if "note" in cf:
        meta["note"] = cf["note"]
    json.dump(meta, open(os.path.join(d, 'meta.json'), 'w'), indent=1)
    print("wrote", sid)
