#!/bin/bash
# run_all.sh [tier] [seed]  - runs every registered check, prints one line each
TIER=${1:-quick}; SEED=${2:-1}
cd "$(dirname "$0")/.."
rc_all=0
for i in 01 02 03 04 05 06 07 08 09 10 11 12 13 14 15 16 17 18 19 20; do
  s=$(date +%s.%N)
  out=$(VERIF_SEED=$SEED /venv/bin/python ./run_check.py C$i --tier $TIER 2>/tmp/run_all_err.txt); rc=$?
  e=$(date +%s.%N)
  printf "C%s rc=%d %.1fs  %s\n" $i $rc $(echo "$e - $s" | bc) "$(echo "$out" | tail -1 | cut -c1-150)"
  if [ $rc -ne 0 ]; then rc_all=1; grep -E "^violation|HARNESS" /tmp/run_all_err.txt | head -3 | cut -c1-300; fi
done
exit $rc_all
