#!/venv/bin/python
"""Coverage-guided campaign for C16: libFuzzer (atheris) drives the bytes that
Hypothesis turns into a topology text (fuzz_one_input of the same strategy as the
C16 check); the round-trip oracle runs inside the target.

usage: fuzz_itp.py <verif root> <out.json> [libFuzzer args...]
exit 0: all runs held; exit 77: a violation was found (replay written to out.json)."""
import json
import os
import sys

verif, out_path = sys.argv[1], sys.argv[2]
sys.path.insert(0, verif)
sys.path.append(os.path.join(verif, ".deps"))
os.chdir(verif)

import atheris  # noqa: E402

with atheris.instrument_imports(include=["gaddlemaps"]):
    from vlib import env  # noqa: E402,F401  (imports gaddlemaps from VERIF_REPO)
    import gaddlemaps.parsers._itp_parse  # noqa: E402,F401

from hypothesis import HealthCheck, given, settings  # noqa: E402

from checks import c16_itp_roundtrip as c16  # noqa: E402
from vlib.report import PropertyViolation, canon  # noqa: E402

env.make_base_tmp()
stats = {"executions": 0, "nontrivial": 0, "stats": {}}


@settings(database=None, deadline=None, suppress_health_check=list(HealthCheck))
@given(c16.text_case())
def target(case):
    stats["executions"] += 1
    try:
        info = c16.check_text(case)
    except PropertyViolation as exc:
        with open(out_path, "w") as f:
            json.dump({"violation": True, "clause": exc.clause, "message": exc.message, "cls": exc.cls,
                       "case": json.loads(canon(case)), "executions": stats["executions"]}, f)
        env.remove_base_tmp()
        os._exit(77)
    finally:
        env.clean_proc_tmp()
    if info.get("nontrivial"):
        stats["nontrivial"] += 1
    for c in info.get("classes", ()):
        stats["stats"][c] = stats["stats"].get(c, 0) + 1
    if stats["executions"] % 100 == 0 or stats["executions"] < 3:
        with open(out_path, "w") as f:
            json.dump(dict(stats, violation=False), f)


def one_input(data):
    target.hypothesis.fuzz_one_input(data)


atheris.Setup([sys.argv[0]] + sys.argv[3:], one_input)
try:
    atheris.Fuzz()
finally:
    with open(out_path, "w") as f:
        json.dump(dict(stats, violation=False), f)
    env.remove_base_tmp()
