#!/venv/bin/python
"""Runs gaddlemaps._cli.sort_molecules for a list of jobs in THIS interpreter
(started by the C20 check under a chosen PYTHONHASHSEED) and prints the results
as JSON.  usage: discover.py <repo root> <jobs.json>
jobs: [{"ref": path, "files": [paths in listing order], "known": [[cg.itp, aa.gro, aa.itp], ...], "cwd": dir or null}]"""
import contextlib
import io
import json
import os
import sys
import warnings

repo, jobs_path = sys.argv[1], sys.argv[2]
sys.path.insert(0, repo)
with warnings.catch_warnings():
    warnings.simplefilter("ignore")
    import gaddlemaps
    from gaddlemaps import _cli
from gaddlemaps.parsers import GroFile  # noqa: E402


class Gro2File(GroFile):          # a coordinate format registered by the user's script, after the package was imported
    EXTENSIONS = ("gro2",)


assert os.path.realpath(gaddlemaps.__file__).startswith(os.path.realpath(repo) + os.sep), gaddlemaps.__file__

with open(jobs_path) as f:
    jobs = json.load(f)
out = []
home = os.getcwd()
for job in jobs:
    buf = io.StringIO()
    os.chdir(job.get("cwd") or home)
    if job.get("nofile"):          # soft limit of open files from this job on
        import resource
        soft, hard = resource.getrlimit(resource.RLIMIT_NOFILE)
        resource.setrlimit(resource.RLIMIT_NOFILE, (int(job["nofile"]), hard))
    if "main" in job:
        # the command line entry point with the mapping pipeline replaced by a recorder: which species, in which
        # order (= alignment order = share of the random stream), reach the pipeline under this hash seed
        calls = []
        orig, old_argv = _cli.auto_map, sys.argv
        _cli.auto_map = lambda ref, species, scale=0.5, outfile=None: calls.append([list(s) for s in species])
        sys.argv = ["gaddlemaps"] + list(job["main"])
        try:
            with contextlib.redirect_stdout(buf), warnings.catch_warnings():
                warnings.simplefilter("ignore")
                _cli.main()
            out.append({"ok": True, "calls": calls})
        except BaseException as exc:      # noqa: BLE001
            out.append({"ok": False, "error": "%s: %s" % (type(exc).__name__, str(exc)[:200])})
        finally:
            _cli.auto_map, sys.argv = orig, old_argv
        continue
    try:
        with contextlib.redirect_stdout(buf), warnings.catch_warnings():
            warnings.simplefilter("ignore")
            res = _cli.sort_molecules(job["ref"], list(job["files"]), [list(k) for k in job["known"]])
        out.append({"ok": True, "result": {k: dict(v) for k, v in res.items()}, "order": list(res.keys())})
    except BaseException as exc:      # noqa: BLE001
        out.append({"ok": False, "error": "%s: %s" % (type(exc).__name__, str(exc)[:200])})
json.dump({"hashseed": os.environ.get("PYTHONHASHSEED"), "results": out}, sys.stdout)
