"""Generic driver: runs every sub-check of one property in parallel shards,
merges what was explored, writes evidence and replay files, prints the
VIOLATION / KNOWN-FINDING lines and returns the exit status."""
import importlib
import json
import math
import multiprocessing
import os
import sys
import traceback
import zlib

from . import env
from .report import (Discard, HarnessError, PropertyViolation, Recorder, Timer, canon,
                     digest, write_evidence, write_replay)

NPROC = int(os.environ.get("VERIF_NPROC", "16"))


class Sub:
    """One clause of a property = generator + oracle.

    check(case) -> info dict (nontrivial, classes, sample); raises
    PropertyViolation.  Exactly one of `strategy` (tier -> hypothesis strategy
    of JSON-able cases) and `enumerate` ((tier, seed) -> (list_or_iter, exhaustive))
    is given."""

    def __init__(self, name, check, strategy=None, enumerate=None, quick=0,
                 thorough=0, shards=NPROC, min_share=None, note="", shrink=True, tiers=("quick", "thorough")):
        self.name = name
        self.check = check
        self.strategy = strategy
        self.enumerate = enumerate
        self.quick = quick
        self.thorough = thorough
        self.shards = shards
        self.min_share = min_share or {}
        self.note = note
        self.shrink = shrink
        self.tiers = tiers

    def budget(self, tier):
        n = self.thorough if tier == "thorough" else self.quick
        scale = float(os.environ.get("VERIF_SCALE", "1"))
        return max(1, int(math.ceil(n * scale)))


def _guarded(check):
    """The oracle wraps library calls with build.lib(); this is the safety net for the calls it makes
    directly: an exception whose innermost frame lies inside the repository's package, raised on an
    input inside the property's domain, is a violation (clause 'library-exception'), not a harness error.
    Exceptions raised in harness code stay harness errors."""
    def run(case):
        from . import build
        try:
            dg = digest(case)
            build.set_usage(int(dg[:4], 16) >> 3)
            build.set_environ(int(dg[4:8], 16) >> 2)
        except Exception:      # noqa: BLE001
            build.set_usage(0)
            build.set_environ(0)
        try:
            return check(case)
        except (PropertyViolation, HarnessError, Discard):
            raise
        except Exception as exc:      # noqa: BLE001
            tb = traceback.extract_tb(exc.__traceback__)
            root = env.REPO + os.sep + "gaddlemaps" + os.sep
            if tb and tb[-1].filename.startswith(root):
                fr = tb[-1]
                raise PropertyViolation("library-exception", "library raised %s: %s at %s:%d"
                                        % (type(exc).__name__, str(exc)[:300], fr.filename[len(root):], fr.lineno),
                                        cls="library-exception:%s" % type(exc).__name__)
            raise
    return run


def _sub_seed(seed, sub_name, shard):
    return (int(seed) * 1000003 + zlib.crc32(sub_name.encode()) * 101 + shard) % (2 ** 63)


def _run_hypothesis_shard(sub, tier, seed, shard, n_cases, known_cls=()):
    import hypothesis
    from hypothesis import HealthCheck, Phase, given, settings

    import warnings
    from hypothesis.errors import HypothesisWarning
    warnings.simplefilter("ignore", HypothesisWarning)
    rec = Recorder()
    last = {}
    failures = []

    seen = []

    def body(case):
        last["case"] = case
        rec.evaluations += 1
        try:
            info = _guarded(sub.check)(case)
        except PropertyViolation as exc:
            if exc.cls in known_cls:
                # a listed (known, unrepaired) finding: counted, reported once, and the search goes on behind it
                rec.discard("known-finding:" + exc.cls)
                size = len(canon(case))
                if exc.cls not in known_hit or size < known_hit[exc.cls][0]:
                    known_hit[exc.cls] = (size, {"cls": exc.cls, "clause": exc.clause, "message": exc.message,
                                                 "case": json.loads(canon(case))})
                return
            seen.append((len(canon(case)), exc, case))
            raise
        except Discard as d:
            rec.discard(d.reason)
            return
        finally:
            env.clean_proc_tmp()
        rec.record(case, info)

    known_hit = {}
    test = given(sub.strategy(tier))(body)
    test = settings(max_examples=n_cases, database=None, deadline=None,
                    derandomize=False, report_multiple_bugs=False,
                    print_blob=False,
                    suppress_health_check=list(HealthCheck),
                    phases=([Phase.explicit, Phase.generate, Phase.target, Phase.shrink] if sub.shrink
                            else [Phase.explicit, Phase.generate, Phase.target]))(test)
    test = hypothesis.seed(_sub_seed(seed, sub.name, shard))(test)
    try:
        test()
    except PropertyViolation as exc:
        failures.append({"cls": exc.cls, "clause": exc.clause,
                         "message": exc.message, "case": json.loads(canon(last["case"]))})
    except BaseException:
        # e.g. Hypothesis' Flaky error when a violation depends on a random hash seed of a
        # sub-process: the violation was observed, report the smallest case that showed it
        if not seen:
            raise
        _, exc, case = min(seen, key=lambda t: t[0])
        failures.append({"cls": exc.cls, "clause": exc.clause,
                         "message": exc.message, "case": json.loads(canon(case))})
    failures.extend(f for _, f in known_hit.values())
    return rec, failures


def _run_enum_shard(sub, tier, seed, shard, nshards):
    rec = Recorder()
    failures = []
    seen_cls = set()
    cases, exhaustive = sub.enumerate(tier, seed)
    n = 0
    for idx, case in enumerate(cases):
        if idx % nshards != shard:
            continue
        n += 1
        if callable(case):          # lazy case construction: only the owning shard pays for it
            case = case()
        rec.evaluations += 1
        try:
            try:
                info = _guarded(sub.check)(case)
            finally:
                env.clean_proc_tmp()
        except PropertyViolation as exc:
            if exc.cls not in seen_cls:      # keep the first (smallest index) per class
                seen_cls.add(exc.cls)
                failures.append({"cls": exc.cls, "clause": exc.clause,
                                 "message": exc.message,
                                 "case": json.loads(canon(case))})
            continue
        except Discard as d:
            rec.discard(d.reason)
            continue
        rec.record(case, info)
    rec.exhaustive = bool(exhaustive)
    return rec, failures


def _worker(task):
    mod_name, sub_name, tier, seed, shard, nshards, n_cases = task
    os.environ["VERIF_TIER_CURRENT"] = tier
    cover = os.environ.get("VERIF_COVER_DIR")      # development aid: line coverage of the repository
    if cover:
        import threading
        hits = set()
        root = env.REPO + os.sep + "gaddlemaps"

        def tracer(frame, event, arg):
            fn = frame.f_code.co_filename
            if not fn.startswith(root):
                return None
            if event == "line":
                hits.add((fn, frame.f_lineno))
            return tracer
        sys.settrace(tracer)
        threading.settrace(tracer)
    try:
        return _worker_inner(task)
    finally:
        if cover:
            sys.settrace(None)
            with open(os.path.join(cover, "cov-%s-%s-%d-%d.json" % (mod_name, sub_name, shard, os.getpid())), "w") as f:
                json.dump(sorted(hits), f)


def _worker_inner(task):
    mod_name, sub_name, tier, seed, shard, nshards, n_cases = task
    wd = os.environ.get("VERIF_WATCHDOG")          # development aid: dump the Python stack of a shard every N seconds
    if wd:
        import faulthandler
        f = open(os.path.join(os.environ.get("VERIF_WATCHDOG_DIR", "/tmp"), "stack-%s-%s-%d.txt" % (mod_name, sub_name, shard)), "w")
        faulthandler.dump_traceback_later(int(wd), repeat=True, file=f)
    try:
        mod = importlib.import_module(mod_name)
        sub = [s for s in mod.SUBCHECKS if s.name == sub_name][0]
        if sub.strategy is not None:
            known_cls = set(e.get("cls") for e in load_known(mod.PROPERTY) if e.get("subcheck") == sub_name)
            rec, failures = _run_hypothesis_shard(sub, tier, seed, shard, n_cases, known_cls)
        else:
            rec, failures = _run_enum_shard(sub, tier, seed, shard, nshards)
        return {"sub": sub_name, "shard": shard, "rec": rec.dump(),
                "failures": failures, "error": None}
    except BaseException:
        return {"sub": sub_name, "shard": shard, "rec": Recorder().dump(),
                "failures": [], "error": traceback.format_exc()}


def _run_tasks(tasks, nproc):
    ctx = multiprocessing.get_context("fork")
    results = []
    sys.stdout.flush()
    with ctx.Pool(min(nproc, len(tasks)) or 1) as pool:
        for res in pool.imap_unordered(_worker, tasks, chunksize=1):
            results.append(res)
    return results


# ---- a share of every check also runs in an interpreter started with -O (assert statements compiled out,
# __debug__ False): a supported way of running Python in which every listed property has to hold as well
OPT_SHARDS = int(os.environ.get("VERIF_OPT_SHARDS", "4"))


def _mark_opt(f):
    f = dict(f)
    f["opt"] = True
    f["message"] = "[python -O] " + f["message"]
    return f


def _start_opt_child(mod_name, prop, tier, only):
    import subprocess
    if sys.flags.optimize or OPT_SHARDS <= 0 or os.environ.get("VERIF_OPT_CHILD"):
        return None
    out = os.path.join(os.environ[env._BASE_ENV], "opt-child-%d.json" % os.getpid())
    cmd = [sys.executable, "-O", os.path.join(env.VERIF_ROOT, "run_check.py"), prop, "--tier", tier,
           "--opt-child", out]
    if only:
        cmd += ["--only", ",".join(sorted(only))]
    log = open(out + ".log", "w")
    proc = subprocess.Popen(cmd, stdout=log, stderr=subprocess.STDOUT,
                            env=dict(os.environ, VERIF_OPT_CHILD="1"))
    return proc, out, log


def _finish_opt_child(child, prop):
    proc, out, log = child
    rc = proc.wait()
    log.close()
    if rc != 0 or not os.path.exists(out):
        with open(out + ".log") as f:
            sys.stderr.write("--- python -O child of %s ---\n%s\n" % (prop, f.read()[-3000:]))
        env.harness_exit("the python -O share of %s failed outside the oracle (rc=%s)" % (prop, rc))
    with open(out) as f:
        return json.load(f)


def run_opt_child(mod_name, tier, seed, only, out):
    """Entry of the -O share: the same sub-checks, other shard seeds, a quarter of the budget."""
    if not sys.flags.optimize:
        env.harness_exit("--opt-child needs an interpreter started with -O")
    mod = importlib.import_module(mod_name)
    prop = mod.PROPERTY
    env.make_base_tmp()
    try:
        subs = [s for s in mod.SUBCHECKS if (only is None or s.name in only) and tier in s.tiers]
        tasks = []
        for sub in subs:
            n = sub.budget(tier)
            if sub.strategy is not None:
                nshards = max(1, min(sub.shards, NPROC, n))
                per = int(math.ceil(n / nshards))
                for sh in range(min(OPT_SHARDS, nshards)):
                    tasks.append((mod_name, sub.name, tier, seed, 1000 + sh, nshards, per))
            else:
                nshards = max(1, min(sub.shards, NPROC))
                for sh in range(0, nshards, max(1, NPROC // OPT_SHARDS)):
                    tasks.append((mod_name, sub.name, tier, seed, sh, nshards, 0))
        reg_fail, n_reg = run_regress(mod, prop)
        results = _run_tasks(tasks, OPT_SHARDS)
        errors = [r for r in results if r["error"]]
        if errors:
            sys.stderr.write(errors[0]["error"][-3000:] + "\n")
            env.harness_exit("%d shard(s) of %s failed outside the oracle under python -O" % (len(errors), prop))
        with open(out, "w") as f:
            json.dump({"results": results, "reg_fail": reg_fail, "n_reg": n_reg}, f)
    finally:
        env.remove_base_tmp()
    return 0


def load_known(prop):
    path = os.path.join(env.VERIF_ROOT, "known_findings.json")
    if not os.path.exists(path):
        return []
    with open(path) as f:
        data = json.load(f)
    return [e for e in data.get("findings", [])
            if e.get("property") == prop and e.get("status") == "known"]


def _match_known(known, sub_name, failure):
    for e in known:
        if e.get("subcheck") == sub_name and e.get("cls") == failure["cls"]:
            return e
    return None


def run_regress(mod, prop):
    """Committed minimal inputs of earlier failures: run first, without Hypothesis."""
    d = os.path.join(env.VERIF_ROOT, "replays", "regress", prop)
    out = []
    if not os.path.isdir(d):
        return out, 0
    n = 0
    for name in sorted(os.listdir(d)):
        if not name.endswith(".json"):
            continue
        with open(os.path.join(d, name)) as f:
            body = json.load(f)
        sub = [s for s in mod.SUBCHECKS if s.name == body["subcheck"]]
        if not sub:
            raise HarnessError("regress file %s names unknown subcheck" % name)
        n += 1
        try:
            try:
                _guarded(sub[0].check)(body["case"])
            finally:
                env.clean_proc_tmp()
        except PropertyViolation as exc:
            out.append((body["subcheck"], {"cls": exc.cls, "clause": exc.clause,
                                           "message": exc.message, "case": body["case"]}))
        except Discard:
            pass
    return out, n


def run_property(mod_name, tier, seed, only=None):
    timer = Timer()
    mod = importlib.import_module(mod_name)
    prop = mod.PROPERTY
    base = env.make_base_tmp()
    try:
        return _run_property(mod, mod_name, prop, tier, seed, timer, only)
    finally:
        env.remove_base_tmp()


def _run_property(mod, mod_name, prop, tier, seed, timer, only):
    known = load_known(prop)
    subs = [s for s in mod.SUBCHECKS if (only is None or s.name in only) and tier in s.tiers]
    tasks = []
    for sub in subs:
        n = sub.budget(tier)
        if sub.strategy is not None:
            nshards = max(1, min(sub.shards, NPROC, n))
            per = int(math.ceil(n / nshards))
            for sh in range(nshards):
                tasks.append((mod_name, sub.name, tier, seed, sh, nshards, per))
        else:
            nshards = max(1, min(sub.shards, NPROC))
            for sh in range(nshards):
                tasks.append((mod_name, sub.name, tier, seed, sh, nshards, 0))

    all_fail = []          # (sub_name, failure)
    child = _start_opt_child(mod_name, prop, tier, only)
    try:
        reg_fail, n_reg = run_regress(mod, prop)
    except HarnessError as exc:
        env.harness_exit(str(exc))
    all_fail.extend(reg_fail)

    results = _run_tasks(tasks, NPROC)
    n_opt = 0
    if child is not None:
        opt = _finish_opt_child(child, prop)
        for sub_name, f in opt["reg_fail"]:
            all_fail.append((sub_name, _mark_opt(f)))
        n_reg += opt["n_reg"]
        for r in opt["results"]:
            r["failures"] = [_mark_opt(f) for f in r["failures"]]
            n_opt += r["rec"]["evaluations"]
            results.append(r)

    errors = [r for r in results if r["error"]]
    if errors:
        for r in errors[:1]:
            lines = r["error"].splitlines()
            if len(lines) > 45:
                lines = lines[:30] + ["   ... (%d lines omitted) ..." % (len(lines) - 40)] + lines[-10:]
            sys.stderr.write("--- harness error in %s shard %d ---\n%s\n"
                             % (r["sub"], r["shard"], "\n".join(l[:300] for l in lines)))
        env.harness_exit("%d shard(s) of %s failed outside the oracle" % (len(errors), prop))

    per_sub = {}
    for sub in subs:
        dumps = [r["rec"] for r in results if r["sub"] == sub.name]
        per_sub[sub.name] = Recorder.merge(dumps)
        for r in sorted((r for r in results if r["sub"] == sub.name), key=lambda r: r["shard"]):
            for f in r["failures"]:
                all_fail.append((sub.name, f))

    # ---- bucket failures by (sub, class); smallest case per bucket
    buckets = {}
    for sub_name, f in all_fail:
        key = (sub_name, f["cls"])
        if key not in buckets or len(canon(f["case"])) < len(canon(buckets[key]["case"])):
            buckets[key] = f

    # ---- starvation: an interesting class below its minimum share is a harness error
    starved = []
    for sub in subs:
        rec = per_sub[sub.name]
        if not rec.evaluations:
            if not any(k[0] == sub.name for k in buckets):
                starved.append("%s: no case executed" % sub.name)
            continue
        has_failure = any(k[0] == sub.name for k in buckets)
        for cls, share in sub.min_share.items():
            # declared shares are what the generator normally delivers with margin; the alarm
            # threshold is half of it (and needs a sample of >= 60 cases) so that it fires on a
            # generator that stopped reaching a class, not on seed-to-seed fluctuation
            share = share * 0.5
            got = rec.classes.get(cls, 0) / float(max(1, rec.cases))
            if rec.cases >= 60 and got < share and not has_failure:
                starved.append("%s: class %s share %.4f < %.4f" % (sub.name, cls, got, share))

    # ---- evidence
    total = Recorder.merge([r.dump() for r in per_sub.values()])
    samples = []
    for sub in subs:
        rec = per_sub[sub.name]
        for s in (rec.samples[:1] + rec.nt_samples[:1]):
            samples.append({"subcheck": sub.name, "case": s})
    sub_cov = {}
    for sub in subs:
        rec = per_sub[sub.name]
        sub_cov[sub.name] = {"evaluations": rec.evaluations, "cases": rec.cases,
                             "distinct_nontrivial": rec.n_nontrivial(),
                             "classes": dict(sorted(rec.classes.items())),
                             "discards": dict(rec.discards),
                             "exhaustive": bool(rec.exhaustive),
                             "note": sub.note}
    n_viol = 0
    n_known = 0
    lines = []
    for (sub_name, cls), f in sorted(buckets.items()):
        e = _match_known(known, sub_name, f)
        if e is not None:
            n_known += 1
            lines.append("KNOWN-FINDING: property=%s %s" % (prop, e.get("what", cls)))
            continue
        n_viol += 1
        path = write_replay(prop, sub_name, f["clause"], f["message"], f["case"],
                            extra={"interpreter": "-O"} if f.get("opt") else None)
        sys.stderr.write("violation %s/%s [%s]: %s\n" % (prop, sub_name, f["clause"], f["message"][:600]))
        lines.append("VIOLATION property=%s replay=%s" % (prop, path))

    coverage = {
        "evaluations": total.evaluations + n_reg,
        "distinct_nontrivial": total.n_nontrivial(),
        "rule": mod.RULE,
        "samples": samples or [{"note": "no case completed"}],
        "exhaustive": bool(subs) and all(per_sub[s.name].exhaustive for s in subs),
        "exhaustive_subdomains": [s.name for s in subs if per_sub[s.name].exhaustive],
        "subchecks": sub_cov,
        "regression_inputs_replayed": n_reg,
        "evaluations_under_python_O": n_opt,
        "known_findings_reproduced": n_known,
        "violation_classes": [{"subcheck": k[0], "class": k[1],
                               "message": v["message"][:300]} for k, v in sorted(buckets.items())],
    }
    try:
        write_evidence(prop, tier, seed, mod.LEVEL, coverage,
                       list(mod.ASSUMPTIONS), timer.elapsed(), n_viol)
    except Exception as exc:
        if n_viol == 0:
            env.harness_exit("evidence for %s does not validate: %r" % (prop, exc))
        sys.stderr.write("evidence not valid (%r) - violation reported anyway\n" % (exc,))

    for ln in lines:
        print(ln)
    summary = ", ".join("%s=%d/%d" % (s.name, per_sub[s.name].n_nontrivial(),
                                       per_sub[s.name].evaluations) for s in subs)
    print("%s %s seed=%s: %d cases, %d distinct non-trivial, %d violation class(es), %.1fs  [%s]"
          % (prop, tier, seed, coverage["evaluations"], coverage["distinct_nontrivial"],
             n_viol, timer.elapsed(), summary))
    sys.stdout.flush()
    if n_viol:
        return 1
    if starved:
        env.harness_exit("generator starvation: " + "; ".join(starved))
    return 0


def replay(mod_name, path):
    mod = importlib.import_module(mod_name)
    with open(path) as f:
        body = json.load(f)
    sub = [s for s in mod.SUBCHECKS if s.name == body["subcheck"]]
    if not sub:
        env.harness_exit("unknown subcheck %r in %s" % (body.get("subcheck"), path))
    env.make_base_tmp()
    try:
        try:
            _guarded(sub[0].check)(body["case"])
        except PropertyViolation as exc:
            sys.stderr.write("replay %s: %s: %s\n" % (path, exc.clause, exc.message[:2000]))
            print("VIOLATION property=%s replay=%s" % (mod.PROPERTY, path))
            return 1
        except Discard as d:
            print("replay %s: inconclusive (%s)" % (path, d.reason))
            return 0
        print("replay %s: property holds on this input" % path)
        return 0
    finally:
        env.remove_base_tmp()
