"""Process environment of the harness: repository import, temp dirs, quiet
library calls.  Importing this module imports gaddlemaps from VERIF_REPO
(default /repo) and exits 2 if another copy would be imported."""
import contextlib
import io
import os
import shutil
import sys
import tempfile
import warnings

VERIF_ROOT = os.path.dirname(os.path.dirname(os.path.abspath(__file__)))
REPO = os.path.realpath(os.environ.get("VERIF_REPO", "/repo"))
DEPS = os.path.join(VERIF_ROOT, ".deps")

HARNESS_ERROR = 2


def harness_exit(msg):
    sys.stdout.flush()
    sys.stderr.write("HARNESS-ERROR: %s\n" % msg)
    sys.stderr.flush()
    os._exit(HARNESS_ERROR)


def _setup_path():
    if VERIF_ROOT not in sys.path:
        sys.path.insert(0, VERIF_ROOT)
    while REPO in sys.path:
        sys.path.remove(REPO)
    sys.path.insert(0, REPO)
    if os.path.isdir(DEPS) and DEPS not in sys.path:
        sys.path.append(DEPS)


_setup_path()

with warnings.catch_warnings():
    warnings.simplefilter("ignore")
    try:
        import numpy as np  # noqa: F401
        import gaddlemaps  # noqa: F401
    except Exception as exc:  # the tree does not import: that is a broken build
        harness_exit("cannot import gaddlemaps from %s: %r" % (REPO, exc))

if not os.path.realpath(gaddlemaps.__file__).startswith(REPO + os.sep):
    harness_exit("gaddlemaps imported from %s, expected under %s"
                 % (gaddlemaps.__file__, REPO))

DATA = os.path.join(REPO, "gaddlemaps", "data")


# ---------------------------------------------------------------- temp dirs
_BASE_ENV = "VERIF_TMP_BASE"
_proc_dir = None
_counter = [0]


def make_base_tmp():
    """Called once by the parent process; children create sub-directories."""
    root = "/dev/shm" if os.path.isdir("/dev/shm") and os.access("/dev/shm", os.W_OK) else None
    base = tempfile.mkdtemp(prefix="gmverif-", dir=root)
    os.environ[_BASE_ENV] = base
    return base


def remove_base_tmp():
    base = os.environ.pop(_BASE_ENV, None)
    if base and os.path.isdir(base):
        shutil.rmtree(base, ignore_errors=True)


def proc_tmp():
    global _proc_dir
    if _proc_dir is None or not os.path.isdir(_proc_dir):
        base = os.environ.get(_BASE_ENV)
        if base is None:
            base = make_base_tmp()
            import atexit
            atexit.register(remove_base_tmp)
        _proc_dir = tempfile.mkdtemp(prefix="p%d-" % os.getpid(), dir=base)
    return _proc_dir


def fresh_path(suffix):
    """A new file name inside the per-process temp dir."""
    _counter[0] += 1
    return os.path.join(proc_tmp(), "f%d%s" % (_counter[0], suffix))


def fresh_dir():
    _counter[0] += 1
    d = os.path.join(proc_tmp(), "d%d" % _counter[0])
    os.makedirs(d)
    return d


def clean_proc_tmp():
    """Remove every file created so far by this process (called between cases)."""
    global _proc_dir
    if _proc_dir and os.path.isdir(_proc_dir):
        shutil.rmtree(_proc_dir, ignore_errors=True)
    _proc_dir = None


# ---------------------------------------------------------------- quiet calls
class _Sink(io.TextIOBase):
    def write(self, s):
        return len(s)

    def flush(self):
        pass


_SINK = _Sink()


@contextlib.contextmanager
def quiet():
    """Run library code without its prints and warnings reaching stdout."""
    old = sys.stdout
    sys.stdout = _SINK
    try:
        with warnings.catch_warnings():
            warnings.simplefilter("ignore")
            yield
    finally:
        sys.stdout = old
