"""Case recording, evidence files, replay files, violation lines."""
import collections
import hashlib
import json
import os
import time

VERIF_ROOT = os.path.dirname(os.path.dirname(os.path.abspath(__file__)))
# development runs against patched scratch trees write their evidence / replay files elsewhere
OUT_ROOT = os.environ.get("VERIF_OUT_DIR") or VERIF_ROOT


class PropertyViolation(Exception):
    """Raised by an oracle: the property does not hold on this case."""

    def __init__(self, clause, message, cls=None):
        super().__init__("%s: %s" % (clause, message))
        self.clause = clause
        self.message = message
        self.cls = cls or clause


class Discard(Exception):
    """The case cannot be judged within the harness' budget (e.g. a Monte-Carlo search that does not stop within
    the step cap): counted under coverage.discards with its reason - inconclusive, never a violation."""

    def __init__(self, reason):
        super().__init__(reason)
        self.reason = reason


class HarnessError(Exception):
    """The harness (generator / model) is wrong or starved; exit 2."""


def canon(obj):
    return json.dumps(obj, sort_keys=True, separators=(",", ":"), default=_default)


def _default(o):
    import numpy as np
    if isinstance(o, np.ndarray):
        return o.tolist()
    if isinstance(o, (np.integer,)):
        return int(o)
    if isinstance(o, (np.floating,)):
        return float(o)
    if isinstance(o, (np.bool_,)):
        return bool(o)
    if isinstance(o, (set, frozenset)):
        return sorted(o)
    if isinstance(o, bytes):
        return o.decode("latin-1")
    raise TypeError(type(o))


def digest(obj):
    return hashlib.sha1(canon(obj).encode()).hexdigest()[:20]


def shorten(obj, budget=1800):
    """A readable, size-bounded rendering of a case for evidence samples."""
    text = canon(obj)
    if len(text) <= budget:
        return json.loads(text)

    def cut(o, depth=0):
        if isinstance(o, dict):
            return {k: cut(v, depth + 1) for k, v in list(o.items())[:40]}
        if isinstance(o, list):
            lim = 6 if depth else 12
            out = [cut(v, depth + 1) for v in o[:lim]]
            if len(o) > lim:
                out.append("... %d more" % (len(o) - lim))
            return out
        if isinstance(o, str) and len(o) > 200:
            return o[:200] + "...(%d chars)" % len(o)
        return o
    out = cut(json.loads(text))
    text = canon(out)
    if len(text) > 4 * budget:
        return {"truncated_json": text[:4 * budget]}
    return out


class Recorder:
    """Counts what one sub-check (or one shard of it) actually explored."""

    def n_nontrivial(self):
        return len(self.nontrivial) + sum(self.units.values())

    MAX_SAMPLES = 3

    def __init__(self):
        self.evaluations = 0
        self.cases = 0
        self.nontrivial = set()
        self.classes = collections.Counter()
        self.discards = collections.Counter()
        self.samples = []
        self.nt_samples = []
        self.exhaustive = None
        self.units = {}            # case digest -> (evaluations, non-trivial) of multi-unit cases

    def record(self, case, info):
        """info: dict(nontrivial=bool, classes=[str], sample=optional summary).
        (evaluations are counted by the runner when the oracle starts, so failing
        executions count too.)"""
        info = info or {}
        self.cases += 1
        for c in info.get("classes", ()):
            self.classes[c] += 1
        nt = bool(info.get("nontrivial"))
        if "units" in info:        # one case = many (input, fault) pairs, all distinct inside the case
            n_units, n_nt = info["units"]
            self.evaluations += max(0, int(n_units) - 1)
            self.units[digest(case)] = int(n_nt)
            nt = False
            if n_nt:
                self.classes["nontrivial"] += 1
        if nt:
            self.classes["nontrivial"] += 1
            self.nontrivial.add(digest(case))
        if len(self.samples) < self.MAX_SAMPLES:
            self.samples.append(shorten(info.get("sample", case)))
        elif nt and len(self.nt_samples) < self.MAX_SAMPLES:
            self.nt_samples.append(shorten(info.get("sample", case)))

    def discard(self, reason):
        self.discards[reason] += 1

    def dump(self):
        return {"evaluations": self.evaluations, "cases": self.cases,
                "nontrivial": sorted(self.nontrivial),
                "classes": dict(self.classes),
                "discards": dict(self.discards),
                "samples": self.samples, "nt_samples": self.nt_samples,
                "exhaustive": self.exhaustive, "units": self.units}

    @staticmethod
    def merge(dumps):
        out = Recorder()
        exh = []
        for d in dumps:
            out.evaluations += d["evaluations"]
            out.cases += d.get("cases", 0)
            out.nontrivial.update(d["nontrivial"])
            out.classes.update(d["classes"])
            out.discards.update(d["discards"])
            out.units.update(d.get("units", {}))
            for s in d["samples"]:
                if len(out.samples) < Recorder.MAX_SAMPLES:
                    out.samples.append(s)
            for s in d["nt_samples"]:
                if len(out.nt_samples) < Recorder.MAX_SAMPLES:
                    out.nt_samples.append(s)
            if d["exhaustive"] is not None:
                exh.append(d["exhaustive"])
        if exh:
            out.exhaustive = all(exh)
        return out


def write_replay(prop, sub, clause, message, case, extra=None):
    d = os.path.join(OUT_ROOT, "replays")
    os.makedirs(d, exist_ok=True)
    body = {"property": prop, "subcheck": sub, "clause": clause,
            "message": message, "case": json.loads(canon(case))}
    if extra:
        body.update(extra)
    name = "%s-%s-%s.json" % (prop, sub, digest(body["case"])[:10])
    path = os.path.join(d, name)
    with open(path, "w") as f:
        json.dump(body, f, indent=1, sort_keys=True)
    return path


def validate_evidence(ev):
    schema_path = os.path.join(VERIF_ROOT, "schemas", "EVIDENCE.schema.json")
    try:
        import jsonschema
    except Exception:
        # minimal structural validation when jsonschema is unavailable
        for k in ("property_id", "tier", "seed", "level", "coverage", "wall_s"):
            if k not in ev:
                raise HarnessError("evidence lacks %s" % k)
        cov = ev["coverage"]
        if ev["level"] in ("exploration", "fault_enumeration"):
            if cov.get("evaluations", 0) < 1 or cov.get("distinct_nontrivial", 0) < 2 \
                    or not cov.get("samples") or not isinstance(cov.get("rule"), str):
                raise HarnessError("evidence coverage keys insufficient")
        return
    with open(schema_path) as f:
        schema = json.load(f)
    jsonschema.validate(ev, schema)


def write_evidence(prop, tier, seed, level, coverage, assumptions, wall_s, violations):
    ev = {"property_id": prop, "tier": tier, "seed": int(seed), "level": level,
          "coverage": coverage, "assumptions": assumptions,
          "wall_s": round(float(wall_s), 3), "violations": int(violations)}
    ev = json.loads(canon(ev))
    validate_evidence(ev)
    d = os.path.join(OUT_ROOT, "evidence")
    os.makedirs(d, exist_ok=True)
    path = os.path.join(d, "%s.json" % prop)
    tmp = path + ".tmp%d" % os.getpid()
    with open(tmp, "w") as f:
        json.dump(ev, f, indent=1, sort_keys=True)
        f.write("\n")
    os.replace(tmp, path)
    return path


class Timer:
    def __init__(self):
        self.t0 = time.time()

    def elapsed(self):
        return time.time() - self.t0
