"""spec -> files -> gaddlemaps objects, through public constructors only."""
import os

import numpy as np

from . import env, indep
from .report import Discard, PropertyViolation

from gaddlemaps.components import AtomGro, Molecule, MoleculeTop, Residue  # noqa: E402


def spec_atoms(spec):
    """[(atomname, resname, resid)] in order."""
    out = []
    for rn, ri, names in spec["residues"]:
        for an in names:
            out.append((an, rn, ri))
    return out


def write_spec_itp(spec, path=None):
    path = path or env.fresh_path(".itp")
    with open(path, "w") as f:
        f.write(indep.itp_text(spec["name"], spec_atoms(spec),
                               [tuple(e) for e in spec["edges"]]))
    return path


def spec_records(spec, first_atomid=1, resids=None, coords=None):
    """gro records of a spec: (resid, resname, name, atomid, x, y, z[, v])"""
    coords = spec["coords"] if coords is None else coords
    vel = spec.get("vel")
    recs = []
    k = 0
    for r, (rn, ri, names) in enumerate(spec["residues"]):
        rid = ri if resids is None else resids[r]
        for an in names:
            rec = [rid, rn, an, first_atomid + k] + [float(c) for c in coords[k]]
            if vel is not None:
                rec += [float(c) for c in vel[k]]
            recs.append(tuple(rec))
            k += 1
    return recs


def residues_from_spec(spec, coords=None, resids=None):
    recs = spec_records(spec, coords=coords, resids=resids)
    out = []
    k = 0
    for rn, ri, names in spec["residues"]:
        out.append(Residue([AtomGro(list(recs[k + i])) for i in range(len(names))]))
        k += len(names)
    return out


def build_top(spec):
    # environment style same_path: every topology of the case is written to, and loaded from, one and the same path
    # string (a file overwritten between loads); a MoleculeTop is complete once constructed
    path = os.path.join(env.proc_tmp(), "top.itp") if ENVIRON["same_path"] else None
    return MoleculeTop(write_spec_itp(spec, path))


def build_molecule(spec, top=None, coords=None, resids=None):
    """A fresh Molecule (fresh MoleculeTop unless one is passed)."""
    with env.quiet():
        top = top or build_top(spec)
        return Molecule(top, residues_from_spec(spec, coords, resids))


# ---------------------------------------------------------------- usage styles of library calls
# Every case carries two bits (derived from its digest by the runner, so replay reproduces them) that change HOW the
# harness calls the library through lib(), not WHAT it asks:
#   kwargs     - arguments are passed by keyword (for callables whose signature allows it);
#   np_scalars - plain int / bool / float arguments are handed over as numpy scalars (not to __getitem__);
#   fail_first - (also: a callable object of _STATEFUL is first called with too few atoms, then for real)
#   fail_first - a stateless entry point (function or constructor of the list below) is first called with one argument
#                spoilt (an array of the wrong shape, a path that does not exist); whatever that call does - it
#                normally raises - is ignored and the real call follows (error-then-continue).
USAGE = {"kwargs": False, "fail_first": False, "np_scalars": False}
# callable library OBJECTS on which a refused call must leave no trace (error-then-continue on a stateful object): the
# spoilt call drops rows of the coordinate array (too few atoms) instead of a column
_STATEFUL = {"Chi2Calculator"}
# under np_scalars plain int / bool / float arguments are handed over as numpy.int64 / numpy.bool_ / numpy.float64 (what
# indexing an array or a numpy reduction yields) - for every call except indexing a System / SystemGro, which state in
# their error message that indices must be Python integers or slices
_NP_SCALAR_SKIP = {"__getitem__"}
_STATELESS = {"move_mol_atom", "find_atom_random_displ", "rotation_matrix", "calcule_base", "read_topology",
              "guess_residue_restrains", "guess_protein_restrains", "Chi2Calculator", "GroFile", "ItpFile", "MoleculeTop",
              "SystemGro", "System", "open_coordinate_file", "ExchangeMap"}


def set_usage(bits):
    USAGE["kwargs"] = bool(bits & 1)
    USAGE["fail_first"] = bool(bits & 2)
    USAGE["np_scalars"] = bool(bits & 4)


def _np_scalar(a):
    if type(a) is bool:
        return np.bool_(a)
    if type(a) is int:
        return np.int64(a)
    if type(a) is float:
        return np.float64(a)
    return a


def _spoilt(args, rows=False):
    """args with the first spoilable argument spoilt, or None."""
    out = list(args)
    for k, a in enumerate(out):
        if rows and isinstance(a, np.ndarray) and a.ndim == 2 and a.shape[0] >= 2:
            out[k] = np.array(a[: a.shape[0] // 2])
            return out
        if isinstance(a, np.ndarray) and a.ndim >= 1 and a.shape[-1] >= 2:
            out[k] = np.array(a[..., :-1])
            return out
        if isinstance(a, str) and ("/" in a or "." in a):
            out[k] = a + ".does-not-exist"
            return out
        if isinstance(a, (list, tuple)) and len(a) >= 2 and all(isinstance(x, np.ndarray) for x in a):
            out[k] = list(a[:-1])
            return out
    return None


def _styled_call(fn, args, kwargs):
    import inspect
    name = getattr(fn, "__name__", "")
    if USAGE["fail_first"] and name in _STATELESS and (inspect.isfunction(fn) or inspect.isclass(fn)):
        bad = _spoilt(args)
        if bad is not None:
            import sys
            state = np.random.get_state()
            hook = sys.unraisablehook
            sys.unraisablehook = lambda *a, **k: None      # (a half-built object may complain in its __del__)
            try:
                res = fn(*bad, **kwargs)
                close = getattr(res, "close", None)
                if callable(close):
                    close()
                del res
            except Exception:      # noqa: BLE001
                pass
            finally:
                sys.unraisablehook = hook
            np.random.set_state(state)        # the judged call sees the random stream the case prescribes
    if USAGE["fail_first"] and type(fn).__name__ in _STATEFUL and type(fn).__module__.startswith("gaddlemaps"):
        bad = _spoilt(args, rows=True)
        if bad is not None:
            state = np.random.get_state()
            try:
                fn(*bad, **kwargs)
            except Exception:      # noqa: BLE001
                pass
            np.random.set_state(state)
    if USAGE["np_scalars"] and name not in _NP_SCALAR_SKIP:
        args = tuple(_np_scalar(a) for a in args)
        kwargs = {k: _np_scalar(v) for k, v in kwargs.items()}
    if USAGE["kwargs"] and args:
        try:
            sig = inspect.signature(fn)
            kinds = [p.kind for p in sig.parameters.values()]
            if not any(k in (inspect.Parameter.VAR_POSITIONAL, inspect.Parameter.POSITIONAL_ONLY,
                             inspect.Parameter.VAR_KEYWORD) for k in kinds):
                bound = sig.bind(*args, **kwargs)
                return fn(**bound.arguments)
        except (TypeError, ValueError):
            pass
    return fn(*args, **kwargs)


# ---- environment styles: process-wide settings a user's script may legitimately have made before calling the
# library.  Chosen per case from its digest (runner._guarded), so a replay reproduces them.
#   printopts    numpy print options with a small threshold / few digits (text forms of arrays get abbreviated)
#   warn_error   warnings raise (python -W error): the warnings the library issues on purpose and numpy's
#                floating-point warnings are exempted; a warning that escapes from a call is no verdict about
#                the property (Discard, counted in the evidence) - what this style exposes is library code that
#                swallows the raised warning and goes on with something else
#   same_path    build_top() re-uses one path string for every topology file of the case
ENVIRON = {"printopts": False, "warn_error": False, "same_path": False}
_DELIBERATE_WARNINGS = [
    r".*more than 5 character", r"Changing the content of an itp line", r".*modifier for open mode",
    r"Closing an empty file", r"Repeated topology", r".*backend", r".*[Cc]ompiled",
    r".*invalid value encountered", r".*divide by zero", r".*overflow encountered", r".*underflow encountered",
    r"Mean of empty slice", r"Degrees of freedom", r".*unclosed file", r".*Casting complex",
]


def set_environ(bits):
    ENVIRON["printopts"] = (bits & 3) == 3
    ENVIRON["warn_error"] = (bits & 12) == 12
    ENVIRON["same_path"] = (bits & 48) == 48


class _EnvStyle(object):
    def __enter__(self):
        self._w = None
        self._p = None
        if ENVIRON["printopts"]:
            import numpy as np
            self._p = np.get_printoptions()
            np.set_printoptions(threshold=4, edgeitems=1, precision=2, suppress=True)
        if ENVIRON["warn_error"]:
            import warnings
            self._w = warnings.catch_warnings()
            self._w.__enter__()
            warnings.simplefilter("error")
            for msg in _DELIBERATE_WARNINGS:
                warnings.filterwarnings("ignore", message=msg)
            warnings.filterwarnings("ignore", category=ResourceWarning)
        return self

    def __exit__(self, *exc):
        if self._w is not None:
            self._w.__exit__(*exc)
        if self._p is not None:
            import numpy as np
            np.set_printoptions(**self._p)
        return False


def lib(clause, fn, *args, **kwargs):
    """Call library code on an input inside the stated domain: an exception is a
    violation of `clause` (never a harness error)."""
    try:
        with env.quiet(), _EnvStyle():
            return _styled_call(fn, args, kwargs)
    except (PropertyViolation, Discard):
        raise
    except BaseException as exc:   # noqa: BLE001 - recursion errors etc. included
        if isinstance(exc, (KeyboardInterrupt, SystemExit, MemoryError)):
            raise
        if isinstance(exc, Warning) and ENVIRON["warn_error"]:
            raise Discard("warning-as-error")
        import traceback
        tb = traceback.extract_tb(exc.__traceback__)
        where = ""
        for fr in reversed(tb):
            if "gaddlemaps" in fr.filename:
                where = " at %s:%d" % (fr.filename.split("gaddlemaps/")[-1], fr.lineno)
                break
        raise PropertyViolation(clause, "library raised %s: %s%s"
                                % (type(exc).__name__, str(exc)[:300], where),
                                cls="%s:raises-%s" % (clause, type(exc).__name__))


def positions(mol):
    return np.array(mol.atoms_positions, dtype=float)


# ---------------------------------------------------------------- step cap for Monte-Carlo searches
import contextlib  # noqa: E402


ACCEPTED = [0]          # accepted steps of the search(es) run inside the most recent step_cap() block


@contextlib.contextmanager
def step_cap(limit=None):
    """Bounds the number of Monte-Carlo steps of the searches started inside the block.  The library's loop
    stops `budget` steps after its last new minimum; on an objective that the enabled moves leave (almost)
    invariant, rounding noise keeps producing 'new minima' and the loop effectively never ends.  Termination
    is not among the listed properties, so such a case is discarded (reason 'step-cap'), not reported."""
    import os
    from gaddlemaps import _backend
    limit = limit or int(os.environ.get("VERIF_STEP_CAP", "200000"))
    orig = _backend.accept_metropolis
    n = [0, 0]          # steps judged, steps accepted
    ACCEPTED[0] = 0

    def counted(*a, **k):
        n[0] += 1
        if n[0] > limit:
            raise Discard("step-cap")
        r = orig(*a, **k)
        if r:
            n[1] += 1
            ACCEPTED[0] += 1
        return r
    _backend.accept_metropolis = counted
    try:
        yield n
    finally:
        _backend.accept_metropolis = orig


# ---------------------------------------------------------------- a user-registered coordinate format
_CUSTOM = []


def custom_coordinate_format():
    """Registers (once per process) a coordinate parser of the user's own, the way the README describes: a subclass with
    its own EXTENSIONS.  It reads and writes the .gro layout under the extension "gro2" and - like the README's example
    parser - reports its title without the line break.  Returns the extension."""
    if not _CUSTOM:
        from gaddlemaps.parsers import GroFile

        class Gro2File(GroFile):
            EXTENSIONS = ("gro2",)

            @property
            def comment(self):
                return GroFile.comment.fget(self).rstrip("\n")

            @comment.setter
            def comment(self, value):
                GroFile.comment.fset(self, value)
        _CUSTOM.append(Gro2File)
    return "gro2"
