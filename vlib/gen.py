"""Hypothesis strategies and seeded geometry builders.  Every case is plain
JSON-able data.  Structure (sizes, graphs, classes, scale factors) is drawn by
Hypothesis; bulk coordinates come from numpy generators seeded with a value
drawn by Hypothesis, and the coordinates themselves are stored in the case, so a
replay file is self-contained."""
import itertools
import math

import numpy as np
from hypothesis import strategies as st

SEEDS = st.integers(0, 2 ** 32 - 1)

ELEMENTS = ["C", "N", "O", "S", "P", "B", "F", "Na", "CL", "CA", "W"]
RESNAMES = ["ALA", "GLY", "BMIM", "BF4", "SOL", "POPC", "VTE", "DPS", "CUR", "LYS",
            "R1", "A", "X9Z", "MOL", "CHOLE", "DPPCX",          # incl. five-character names (the .gro limit)
            "2MA", "MA", "3HB", "1", "ala", "Ala"]              # names starting with (or made of) digits, case twins


# ------------------------------------------------------------------ rotations
def _cube_rotations():
    out = []
    for perm in itertools.permutations(range(3)):
        for signs in itertools.product((1, -1), repeat=3):
            m = np.zeros((3, 3))
            for r in range(3):
                m[r, perm[r]] = signs[r]
            if round(np.linalg.det(m)) == 1:
                out.append(m)
    return out


CUBE_ROTATIONS = _cube_rotations()
assert len(CUBE_ROTATIONS) == 24


def random_rotation(rng):
    """Proper rotation from the QR decomposition of a Gaussian matrix (harness
    owned: the library's rotation_matrix is not used)."""
    while True:
        q, r = np.linalg.qr(rng.normal(size=(3, 3)))
        q = q * np.sign(np.diag(r))
        if np.linalg.det(q) < 0:
            q[:, 0] = -q[:, 0]
        if abs(np.linalg.det(q) - 1) < 1e-12:
            return q


def rotation_angle(R):
    c = (np.trace(R) - 1) / 2
    return float(math.acos(max(-1.0, min(1.0, c))))


def unit(rng):
    while True:
        v = rng.normal(size=3)
        n = np.linalg.norm(v)
        if n > 1e-3:
            return v / n


# ------------------------------------------------------------------ graphs
@st.composite
def tree_edges(draw, n, relabel=True):
    """Random labelled tree: random parent attachment, then random relabelling."""
    if n <= 1:
        return []
    parents = [draw(st.integers(0, k - 1)) for k in range(1, n)]
    edges = [(parents[k - 1], k) for k in range(1, n)]
    if relabel:
        perm = draw(st.permutations(list(range(n))))
        edges = [(perm[a], perm[b]) for a, b in edges]
    return [[min(a, b), max(a, b)] for a, b in edges]


@st.composite
def graph_edges(draw, n, kind):
    """kind: tree | chain | star | cyclic | forest | ring-forest"""
    if n <= 1:
        return []
    if kind == "ring-forest":
        # several components, some of them rings (possibly with a tail): disconnected, yet the number of bonds may
        # equal n-1 or more
        perm = list(draw(st.permutations(list(range(n)))))
        edges, k = [], 0
        while k < n:
            size = draw(st.integers(1, max(1, min(n - k, 6))))
            comp = perm[k:k + size]
            for a, b in zip(comp, comp[1:]):
                edges.append([min(a, b), max(a, b)])
            if size >= 3 and draw(st.booleans()):
                j = draw(st.integers(2, size - 1))
                edges.append([min(comp[0], comp[j]), max(comp[0], comp[j])])
            k += size
        return edges
    if kind == "chain":
        perm = draw(st.permutations(list(range(n))))
        return [[min(perm[k], perm[k + 1]), max(perm[k], perm[k + 1])] for k in range(n - 1)]
    if kind == "star":
        c = draw(st.integers(0, n - 1))
        return [[min(c, k), max(c, k)] for k in range(n) if k != c]
    edges = draw(tree_edges(n))
    if kind == "cyclic" and n >= 3:
        have = set(map(tuple, edges))
        extra = draw(st.integers(1, max(1, min(4, n // 2))))
        for _ in range(extra):
            a = draw(st.integers(0, n - 2))
            b = draw(st.integers(a + 1, n - 1))
            if (a, b) not in have:
                have.add((a, b))
                edges.append([a, b])
    if kind == "forest" and n >= 3:
        ndrop = draw(st.integers(1, max(1, min(3, len(edges) - 1))))
        for _ in range(ndrop):
            if len(edges) > 1:
                edges.pop(draw(st.integers(0, len(edges) - 1)))
    return edges


def prufer_trees(n):
    """All labelled trees on n vertices (n>=2) as edge lists."""
    if n == 2:
        yield [[0, 1]]
        return
    for seq in itertools.product(range(n), repeat=n - 2):
        degree = [1] * n
        for v in seq:
            degree[v] += 1
        edges = []
        seq = list(seq)
        for v in seq:
            for leaf in range(n):
                if degree[leaf] == 1:
                    edges.append([min(leaf, v), max(leaf, v)])
                    degree[leaf] -= 1
                    degree[v] -= 1
                    break
        u, w = [k for k in range(n) if degree[k] == 1]
        edges.append([u, w])
        yield edges


# ------------------------------------------------------------------ geometry
def _nb(n, edges):
    nb = [[] for _ in range(n)]
    for a, b in edges:
        nb[a].append(b)
        nb[b].append(a)
    return nb


def walk_geometry(n, edges, rng, lo=0.08, hi=0.6, spread=1.5):
    """Generic coordinates: random walk along the bonds (bond length lo..hi nm,
    random directions); unconnected parts start at random places.  Re-drawn
    (deterministically, from the same generator) until all atoms are >=1e-2 nm
    apart and no bonded triple is closer than sin=1e-3 to collinear."""
    nb = _nb(n, edges)
    for _ in range(200):
        pos = np.zeros((n, 3))
        seen = [False] * n
        for root in range(n):
            if seen[root]:
                continue
            seen[root] = True
            pos[root] = rng.uniform(-spread, spread, 3)
            stack = [root]
            while stack:
                u = stack.pop()
                for v in nb[u]:
                    if not seen[v]:
                        seen[v] = True
                        pos[v] = pos[u] + rng.uniform(lo, hi) * unit(rng)
                        stack.append(v)
        if n > 1:
            d = np.sqrt(((pos[:, None] - pos[None]) ** 2).sum(-1)) + np.eye(n) * 10
            if d.min() < 1e-2:
                continue
        if min_anchor_sine(pos, edges) < 1e-3:
            continue
        return pos
    raise RuntimeError("walk_geometry failed")


def anchor_triples(n, edges):
    """(anchor, n1, n2): atoms with >=2 bonded neighbours and their two
    lowest-numbered bonded atoms - computed from the edge list by the harness."""
    nb = [set() for _ in range(n)]
    for a, b in edges:
        if a != b:
            nb[a].add(b)
            nb[b].add(a)
    out = []
    for a in range(n):
        if len(nb[a]) >= 2:
            s = sorted(nb[a])
            out.append((a, s[0], s[1]))
    return out


def triple_sine(p0, p1, p2):
    """|sin| of the angle between p1-p0 and p2-p0 (0 when a vector vanishes)."""
    a = np.asarray(p1, float) - np.asarray(p0, float)
    b = np.asarray(p2, float) - np.asarray(p0, float)
    na, nb_ = np.linalg.norm(a), np.linalg.norm(b)
    if na == 0 or nb_ == 0:
        return 0.0
    return float(np.linalg.norm(np.cross(a, b)) / (na * nb_))


def min_anchor_sine(pos, edges):
    pos = np.asarray(pos, float)
    s = 1.0
    for a, n1, n2 in anchor_triples(len(pos), edges):
        s = min(s, triple_sine(pos[a], pos[n1], pos[n2]))
    return s


def exact_collinear(p0, p1, p2):
    """Exact (rational arithmetic) collinearity of three float points."""
    from fractions import Fraction
    a = [Fraction(float(p1[k])) - Fraction(float(p0[k])) for k in range(3)]
    b = [Fraction(float(p2[k])) - Fraction(float(p0[k])) for k in range(3)]
    cx = a[1] * b[2] - a[2] * b[1]
    cy = a[2] * b[0] - a[0] * b[2]
    cz = a[0] * b[1] - a[1] * b[0]
    return cx == 0 and cy == 0 and cz == 0


LINE_CLASSES = ["axis-x", "axis-y", "axis-z", "diagonal", "integer"]


def line_direction(cls, rng):
    """Integer direction vectors: all differences of lattice points on the line
    are exact in binary floating point."""
    if cls == "axis-x":
        return np.array([1, 0, 0]) * int(rng.choice([-1, 1]))
    if cls == "axis-y":
        return np.array([0, 1, 0]) * int(rng.choice([-1, 1]))
    if cls == "axis-z":
        return np.array([0, 0, 1]) * int(rng.choice([-1, 1]))
    if cls == "diagonal":
        s = rng.choice([-1, 1], size=3)
        k = int(rng.integers(0, 4))
        d = np.array([1, 1, 1]) * s
        if k < 3:
            d[k] = 0 if rng.random() < 0.5 else d[k]
        if not d.any():
            d = np.array([1, 1, 1])
        return d
    while True:
        d = rng.integers(-7, 8, size=3)
        if np.count_nonzero(d) >= 2:
            return d


def line_geometry(n, cls, rng, scale=0.125):
    """All atoms on one line: p0 + k_i * d, integer p0, d and distinct k_i,
    scaled by a power of two (exact)."""
    d = line_direction(cls, rng)
    p0 = rng.integers(-8, 9, size=3)
    ks = rng.choice(np.arange(-3 * n, 3 * n + 1), size=n, replace=False)
    pos = (p0[None, :] + ks[:, None] * d[None, :]).astype(float) * scale
    return pos


# ------------------------------------------------------------------ names
NAME_STYLES = ["plain", "plain", "plain", "h-like", "repeated", "wide", "digit-first", "case"]


@st.composite
def atom_names(draw, n, hydrogens="some", unique=True, style=None):
    """Atom names containing a letter (the element is the first alphabetic run; an atom is a hydrogen when that run
    is exactly "H").  hydrogens: none | some | many.
    style (drawn when None): what the TEXT of the names looks like -
      plain        C1 N2 H3 ...
      h-like       hydrogens written H3 / 3H / H; heavy atoms with names that merely start with or contain an H
                   (HA3 HO3 Hg3 CH3 OH3 NH3)
      repeated     the number is taken modulo 2: names repeat inside a residue
      wide         five-character names (the .gro column width): C0001
      digit-first  1C 2N 3H
      case         names that differ only in case (CA1 / Ca1 / ca1)"""
    if style is None:
        style = draw(st.sampled_from(NAME_STYLES))
    names = []
    for k in range(n):
        if hydrogens == "none":
            isH = False
        elif hydrogens == "many":
            isH = draw(st.integers(0, 3)) > 0
        else:
            isH = draw(st.integers(0, 3)) == 0
        el = "H" if isH else draw(st.sampled_from(ELEMENTS))
        num = k + 1
        if style == "h-like":
            if isH:
                nm = draw(st.sampled_from(["H%d", "%dH", "H%d", "H"])).replace("%d", str(num)) if True else None
            else:
                nm = draw(st.sampled_from(["HA", "HO", "Hg", "CH", "OH", "NH", "C", "O"])) + str(num)
        elif style == "repeated":
            nm = "%s%d" % (el, num % 2 + 1)
        elif style == "wide":
            nm = ("%s%04d" % (el, num))[:5] if len(el) == 1 else ("%s%03d" % (el, num))[:5]
        elif style == "digit-first":
            nm = "%d%s" % (num % 100, el)
        elif style == "case":
            nm = draw(st.sampled_from([el.upper(), el.lower(), el.capitalize()])) + str(num % 3 + 1)
            if isH:
                nm = "H%d" % num
        else:
            nm = "%s%d" % (el, num) if unique or draw(st.booleans()) else el
        names.append(nm[:5])
    return names


def split_residues_spec(names, resnames, sizes, first_resid=1):
    """residues = [[resname, resid, [atom names]]]"""
    out = []
    k = 0
    for r, (rn, sz) in enumerate(zip(resnames, sizes)):
        out.append([rn, first_resid + r, names[k:k + sz]])
        k += sz
    return out


@st.composite
def residue_partition(draw, n, max_res):
    """Sizes of 1..max_res consecutive residues summing to n."""
    nres = draw(st.integers(1, max(1, min(max_res, n))))
    if nres == 1:
        return [n]
    cuts = sorted(draw(st.lists(st.integers(1, n - 1), min_size=nres - 1,
                                max_size=nres - 1, unique=True)))
    bounds = [0] + cuts + [n]
    return [bounds[k + 1] - bounds[k] for k in range(len(bounds) - 1)]


@st.composite
def mol_topology(draw, name, n, kinds=("tree", "chain", "star", "cyclic"),
                 max_res=1, hydrogens="some", resname=None, nres=None, resid_mode="consecutive"):
    """Topology part of a molecule spec (no coordinates)."""
    kind = draw(st.sampled_from(list(kinds)))
    edges = draw(graph_edges(n, kind))
    names = draw(atom_names(n, hydrogens))
    if nres is not None:
        if nres == 1:
            sizes = [n]
        else:
            cuts = sorted(draw(st.lists(st.integers(1, n - 1), min_size=nres - 1,
                                        max_size=nres - 1, unique=True)))
            b = [0] + cuts + [n]
            sizes = [b[k + 1] - b[k] for k in range(nres)]
    else:
        sizes = draw(residue_partition(n, max_res))
    if resname is not None and len(sizes) == 1:
        rns = [resname]
    else:
        rns = [draw(st.sampled_from(RESNAMES)) for _ in sizes]
    spec = {"name": name, "graph": kind, "edges": edges,
            "residues": split_residues_spec(names, rns, sizes,
                                            draw(st.integers(1, 900)))}
    if len(sizes) > 1 and draw(st.integers(0, 7)) == 0:
        # two neighbouring residues whose (number, name) pairs differ but read the same once glued together:
        # 1 + "2MA" and 12 + "MA"
        k = draw(st.integers(0, len(sizes) - 2))
        a, b = (("2MA", 1), ("MA", 12)) if draw(st.booleans()) else (("MA", 12), ("2MA", 1))
        spec["residues"][k][0], spec["residues"][k][1] = a
        spec["residues"][k + 1][0], spec["residues"][k + 1][1] = b
    elif resid_mode == "arbitrary" and len(sizes) > 1 and draw(st.booleans()):
        # residue numbers need not be consecutive nor unique inside a molecule (two chains
        # numbered 1..n, 1..m): only neighbours must differ in (name, number)
        prev = None
        for res in spec["residues"]:
            for _ in range(20):
                num = draw(st.integers(1, 6))
                if (res[0], num) != prev:
                    break
            else:
                num = (prev[1] % 6) + 1
            res[1] = num
            prev = (res[0], num)
    return spec


def spec_n(spec):
    return sum(len(r[2]) for r in spec["residues"])


def with_coords(spec, pos, vel=None):
    out = dict(spec)
    out["coords"] = np.asarray(pos, float).tolist()
    if vel is not None:
        out["vel"] = np.asarray(vel, float).tolist()
    return out


# ---------------------------------------------------------------- memory layouts of coordinate arrays
ARRAY_LAYOUTS = ["C", "C", "F", "strided", "transposed", "readonly"]


def as_layout(arr, style):
    """An ndarray equal to `arr` (same shape, dtype float64, same values) with another memory layout:
    C-contiguous, Fortran-ordered, a strided view into a larger array, the transpose of a (3, N) array, or a
    read-only C array (a function that promises not to modify its input never needs to write to it)."""
    import numpy as np
    a = np.array(arr, dtype=float)
    if style == "F":
        return np.asfortranarray(a)
    if style == "strided" and a.ndim == 2:
        big = np.full((2 * a.shape[0] + 1, a.shape[1] + 2), 123.25)
        big[1::2, 1:-1] = a
        return big[1::2, 1:-1]
    if style == "transposed" and a.ndim == 2:
        return np.ascontiguousarray(a.T).T
    if style == "readonly":
        a.setflags(write=False)
        return a
    return a
