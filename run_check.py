#!/venv/bin/python
"""Entry point:  run_check.py <Cnn> [--tier quick|thorough] [--replay FILE] [--only sub,sub]

exit 0  property held on everything explored
exit 1  violation (a line "VIOLATION property=<id> replay=<path>" is printed)
exit 2  harness error (never a verdict about the repository)
"""
import argparse
import glob
import os
import sys

HERE = os.path.dirname(os.path.abspath(__file__))


def main():
    ap = argparse.ArgumentParser()
    ap.add_argument("prop")
    ap.add_argument("--tier", default=os.environ.get("VERIF_TIER") or "quick",
                    choices=["quick", "thorough"])
    ap.add_argument("--replay")
    ap.add_argument("--only")
    ap.add_argument("--opt-child", help=argparse.SUPPRESS)      # internal: the share of a check that runs under python -O
    args = ap.parse_args()

    # a replay file of a violation seen under python -O is replayed under python -O
    flags = []
    if args.replay and not sys.flags.optimize:
        try:
            import json
            with open(args.replay) as f:
                if json.load(f).get("interpreter") == "-O":
                    flags = ["-O"]
        except Exception:      # noqa: BLE001
            pass

    # every run is a pure function of (tree, VERIF_SEED, tier): pin the hash seed
    if os.environ.get("PYTHONHASHSEED") != "0" or flags:
        env = dict(os.environ, PYTHONHASHSEED="0")
        pre = ["-O"] if (flags or sys.flags.optimize) else []
        os.execve(sys.executable, [sys.executable] + pre + sys.argv, env)

    sys.path.insert(0, HERE)
    os.chdir(HERE)
    try:
        seed = int(os.environ.get("VERIF_SEED", "1") or "1")
    except ValueError:
        seed = 1
    prop = args.prop.upper()
    mods = glob.glob(os.path.join(HERE, "checks", prop.lower() + "_*.py"))
    if len(mods) != 1:
        sys.stderr.write("HARNESS-ERROR: no unique check module for %s\n" % prop)
        sys.exit(2)
    mod_name = "checks." + os.path.basename(mods[0])[:-3]
    try:
        from vlib import runner
        only = set(args.only.split(",")) if args.only else None
        if args.opt_child:
            rc = runner.run_opt_child(mod_name, args.tier, seed, only, args.opt_child)
        elif args.replay:
            rc = runner.replay(mod_name, args.replay)
        else:
            rc = runner.run_property(mod_name, args.tier, seed, only)
    except SystemExit:
        raise
    except BaseException:
        import traceback
        traceback.print_exc()
        sys.stderr.write("HARNESS-ERROR: unexpected exception in the runner\n")
        sys.exit(2)
    sys.exit(rc)


if __name__ == "__main__":
    main()
