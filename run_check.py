#!/venv/bin/python
"""Entry point:  run_check.py <Cnn> [--tier quick|thorough] [--replay FILE] [--only sub,sub]

exit 0  property held on everything explored
exit 1  violation (a line "VIOLATION property=<id> replay=<path>" is printed)
exit 2  harness error (never a verdict about the repository)
"""
import argparse
import glob
import os
import sys

HERE = os.path.dirname(os.path.abspath(__file__))


def main():
    ap = argparse.ArgumentParser()
    ap.add_argument("prop")
    ap.add_argument("--tier", default=os.environ.get("VERIF_TIER") or "quick",
                    choices=["quick", "thorough"])
    ap.add_argument("--replay")
    ap.add_argument("--only")
    args = ap.parse_args()

    # every run is a pure function of (tree, VERIF_SEED, tier): pin the hash seed
    if os.environ.get("PYTHONHASHSEED") != "0":
        env = dict(os.environ, PYTHONHASHSEED="0")
        os.execve(sys.executable, [sys.executable] + sys.argv, env)

    sys.path.insert(0, HERE)
    os.chdir(HERE)
    try:
        seed = int(os.environ.get("VERIF_SEED", "1") or "1")
    except ValueError:
        seed = 1
    prop = args.prop.upper()
    mods = glob.glob(os.path.join(HERE, "checks", prop.lower() + "_*.py"))
    if len(mods) != 1:
        sys.stderr.write("HARNESS-ERROR: no unique check module for %s\n" % prop)
        sys.exit(2)
    mod_name = "checks." + os.path.basename(mods[0])[:-3]
    try:
        from vlib import runner
        if args.replay:
            rc = runner.replay(mod_name, args.replay)
        else:
            only = set(args.only.split(",")) if args.only else None
            rc = runner.run_property(mod_name, args.tier, seed, only)
    except SystemExit:
        raise
    except BaseException:
        import traceback
        traceback.print_exc()
        sys.stderr.write("HARNESS-ERROR: unexpected exception in the runner\n")
        sys.exit(2)
    sys.exit(rc)


if __name__ == "__main__":
    main()
